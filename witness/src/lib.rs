//! Type-level witnesses for the vrl checks (engine E3).
//!
//! * compile-PASS witnesses are ordinary items below: if one stops type-checking, `cargo check` of this
//!   crate fails and the owning check reports a violation.
//! * compile-FAIL witnesses are `compile_fail,E0xxx` doctests, each next to a compiling twin that differs
//!   only by the offending line (so a witness cannot "pass" because of an unrelated error). They run in the
//!   thorough tier with `cargo +nightly test --doc` (error codes are only honoured on nightly).
#![allow(dead_code)]

use vrl::compiler::{Context, Program, Resolved, TypeDef, state::TypeState, runtime::Runtime};
use vrl::compiler::expression::Expression;

fn is_send_sync<T: Send + Sync + ?Sized>() {}
fn is_clone<T: Clone>() {}

/// C14 / R14d: a compiled program can be shared by threads and cloned; expressions are Send + Sync.
const _: fn() = || {
    is_send_sync::<Program>();
    is_clone::<Program>();
    is_send_sync::<dyn Expression>();
    is_send_sync::<Box<dyn Expression>>();
};

/// C14: running takes the program by shared reference (no mutation of the compiled program).
const _: for<'a, 'b, 'c, 'd> fn(
    &'a mut Runtime,
    &'b mut dyn vrl::compiler::Target,
    &'c Program,
    &'d vrl::compiler::TimeZone,
) -> vrl::compiler::runtime::RuntimeResult = Runtime::resolve;

/// C11 / W3 — a float Value cannot hold a bare f64 (NaN cannot be constructed):
/// ```compile_fail,E0308
/// let _ = vrl::value::Value::Float(f64::NAN);
/// ```
/// twin (compiles):
/// ```
/// let _ = vrl::value::Value::Float(vrl::prelude::NotNan::new(1.0).unwrap());
/// ```
pub struct FloatIsNotNan;

/// C15 / R15d — `Context::target()` hands out a shared reference; mutating through it does not type-check:
/// ```compile_fail,E0596
/// fn f(ctx: &mut vrl::compiler::Context) {
///     let path = vrl::path::OwnedTargetPath::event_root();
///     let _ = ctx.target().target_insert(&path, vrl::value::Value::Null);
/// }
/// ```
/// twin (compiles):
/// ```
/// fn f(ctx: &mut vrl::compiler::Context) {
///     let path = vrl::path::OwnedTargetPath::event_root();
///     let _ = ctx.target_mut().target_insert(&path, vrl::value::Value::Null);
/// }
/// ```
pub struct TargetIsSharedByDefault;

/// C14 / R14d — an expression holding single-threaded interior mutability is rejected by the `Expression: Send + Sync` bound:
/// ```compile_fail,E0277
/// use vrl::compiler::{Context, Resolved, TypeDef, state::{TypeInfo, TypeState}, expression::Expression};
/// #[derive(Debug, Clone)]
/// struct Counter(std::rc::Rc<std::cell::RefCell<i64>>);
/// impl std::fmt::Display for Counter { fn fmt(&self, f: &mut std::fmt::Formatter<'_>) -> std::fmt::Result { write!(f, "c") } }
/// impl Expression for Counter {
///     fn resolve(&self, _: &mut Context) -> Resolved { Ok((*self.0.borrow()).into()) }
///     fn type_info(&self, s: &TypeState) -> TypeInfo { TypeInfo::new(s, TypeDef::integer()) }
/// }
/// ```
/// twin (compiles):
/// ```
/// use vrl::compiler::{Context, Resolved, TypeDef, state::{TypeInfo, TypeState}, expression::Expression};
/// #[derive(Debug, Clone)]
/// struct Counter(i64);
/// impl std::fmt::Display for Counter { fn fmt(&self, f: &mut std::fmt::Formatter<'_>) -> std::fmt::Result { write!(f, "c") } }
/// impl Expression for Counter {
///     fn resolve(&self, _: &mut Context) -> Resolved { Ok(self.0.into()) }
///     fn type_info(&self, s: &TypeState) -> TypeInfo { TypeInfo::new(s, TypeDef::integer()) }
/// }
/// ```
pub struct ExpressionsAreSendSync;

fn _unused(_: &Context, _: Resolved, _: TypeDef, _: &TypeState) {}
