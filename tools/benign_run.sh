#!/usr/bin/env bash
# usage: tools/benign_run.sh [pattern] — applies each benign/*.diff (behaviour-preserving refactor pack) to a scratch worktree of /repo HEAD and
# runs every claimed check against it; every check must stay silent. Prints one line per (patch, failing check).
set -uo pipefail
VERIF="$(cd "$(dirname "${BASH_SOURCE[0]}")/.." && pwd)"
PAT="${1:-}"
W=/var/tmp/vrl-verif.benign
git -C /repo worktree remove --force "$W" 2>/dev/null; rm -rf "$W"; git -C /repo worktree prune
git -C /repo worktree add --detach "$W" HEAD >/dev/null 2>&1 || { echo "cannot create scratch worktree"; exit 2; }
export VERIF_REPO="$W" VERIF_TARGET_SUFFIX="-mut" VERIF_EVIDENCE_DIR=/var/tmp/vrl-verif.benign.evidence
RC=0
for P in "$VERIF"/benign/*${PAT}*.diff; do
  N="$(basename "$P" .diff)"
  git -C "$W" checkout -q -- . ; git -C "$W" clean -qfd
  if ! git -C "$W" apply "$P" 2>/dev/null; then echo "$N: PATCH-DOES-NOT-APPLY"; continue; fi
  BAD=""
  for C in $(python3 -c "import json;print(' '.join(c['property_id'] for c in json.load(open('$VERIF/MANIFEST.json'))['checks']))"); do
    OUT="$("$VERIF/bin/check" "$C" 2>&1)"; R=$?
    if [[ $R -ne 0 ]]; then BAD="$BAD $C"; RC=1; echo "$N: ALARM $C  $(grep -E '^  (R[0-9]|FAIL-CLOSED)' <<<"$OUT" | grep -v instances= | head -1 | cut -c1-220)"; fi
  done
  [[ -z "$BAD" ]] && echo "$N: quiet (25 checks)"
done
git -C /repo worktree remove --force "$W" 2>/dev/null; rm -rf "$W" /var/tmp/vrl-verif.benign.evidence
exit $RC
