#!/usr/bin/env bash
# re-runs adopt_seed.py for every adopted seed on the current /repo HEAD with the current rules (serial; applies/reverts each patch in /repo)
cd "$(dirname "${BASH_SOURCE[0]}")/.."
for M in seeded/*/meta.json; do
  D=$(dirname "$M"); SID=$(basename "$D")
  [[ -n "${1:-}" && ! "$SID" =~ $1 ]] && continue
  PROP=$(python3 -c "import json;print(json.load(open('$M'))['property'])")
  EXTRA=$(python3 -c "import json;m=json.load(open('$M'));print(' '.join(c for c in m.get('checks_run_against_patched_repo',{}) if c!=m['property'] and c.startswith('C')))")
  python3 tools/adopt_seed.py none 0 "$PROP" "$SID" $EXTRA 2>&1 | python3 -c "
import sys,json
t=sys.stdin.read()
try:
    j=json.loads(t[t.index('{'):]); print(j['seed'], 'caught_by', j['caught_by'])
except Exception as e: print('ERR', t[-300:])"
done
