#!/usr/bin/env bash
# usage: tools/mutants_run.sh [pattern]   — replays mutants/<Cnn>_*.patch against a scratch worktree of /repo HEAD (never /repo itself),
# running the owning check with VERIF_REPO pointed at the copy. Prints one line per mutant: CAUGHT / MISSED.
set -uo pipefail
VERIF="$(cd "$(dirname "${BASH_SOURCE[0]}")/.." && pwd)"
PAT="${1:-}"
W=/var/tmp/vrl-verif.mut
rm -rf "$W"; git -C /repo worktree prune
git -C /repo worktree add --detach "$W" HEAD >/dev/null 2>&1 || { echo "cannot create scratch worktree"; exit 2; }
export VERIF_REPO="$W" VERIF_TARGET_SUFFIX="-mut"
RC=0
for P in "$VERIF"/mutants/*${PAT}*.patch; do
  N="$(basename "$P" .patch)"; C="${N%%_*}"
  git -C "$W" checkout -q -- . ; git -C "$W" clean -qfd
  if ! git -C "$W" apply "$P" 2>/dev/null; then echo "$N: PATCH-DOES-NOT-APPLY"; continue; fi
  OUT="$(VERIF_EVIDENCE_DIR=/var/tmp/vrl-verif.mut.evidence "$VERIF/bin/check" "$C" 2>&1)"; R=$?
  if [[ $R -eq 1 ]] && grep -q "^VIOLATION property=$C" <<<"$OUT"; then
    echo "$N: CAUGHT  $(grep -E '^  (R[0-9]|FAIL-CLOSED)' <<<"$OUT" | grep -v instances= | head -1 | cut -c1-200)"
  else
    echo "$N: MISSED (rc=$R)"; RC=1
  fi
done
git -C /repo worktree remove --force "$W" 2>/dev/null; rm -rf "$W" /var/tmp/vrl-verif.mut.evidence
exit $RC
