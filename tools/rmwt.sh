#!/usr/bin/env bash
set -euo pipefail
for N in "$@"; do git -C /repo worktree remove --force "/tmp/wt/$N" || rm -rf "/tmp/wt/$N"; done
git -C /repo worktree prune
