#!/usr/bin/env python3
"""writes seeded/RESULTS.md from seeded/*/meta.json (one row per adopted seeded change)"""
import glob, json, os, re
V = os.path.dirname(os.path.dirname(os.path.abspath(__file__)))
rows = []
for f in sorted(glob.glob(os.path.join(V, "seeded", "*", "meta.json"))):
    m = json.load(open(f))
    res = m.get("checks_run_against_patched_repo", {})
    first = ""
    for c in m.get("caught_by", []):
        rep = res.get(c, {}).get("report", [])
        for l in rep:
            mm = re.match(r"\s*(R\w+|FAIL-CLOSED \w+)", l)
            if mm:
                first = "%s %s" % (c, mm.group(1))
                break
        if first:
            break
    own = m["property"] in m.get("caught_by", [])
    need = (m.get("needs_to_manifest") or "").strip().splitlines()
    title = need[0].lstrip("# ").strip() if need else ""
    verdict = "yes" if own else ("other: " + ",".join(m["caught_by"]) if m.get("caught_by") else "no")
    if not m.get("applies_to_repo_head", True):
        verdict = "patch does not apply to HEAD (needs patch.rebased.diff)"
    rows.append((m["seed_id"], m["property"], verdict, first, title[:110]))
out = ["# Seeded changes and what the checks said", "",
       "Each row: an independently produced change that breaks the property while compiling and passing the 1898 existing tests",
       "(confirmed in a scratch worktree, see `<seed>/confirm.log`), applied to /repo, checked, reverted (`tools/adopt_seed.py`).", "",
       "| seed | property | caught by own check | first report | change |", "|---|---|---|---|---|"]
for r in rows:
    out.append("| %s | %s | %s | %s | %s |" % r)
n = len(rows)
own = sum(1 for r in rows if r[2] == "yes")
other = sum(1 for r in rows if r[2].startswith("other"))
out += ["", "%d seeds: %d caught by the property's own check, %d only by another property's check, %d missed." % (n, own, other, n - own - other)]
open(os.path.join(V, "seeded", "RESULTS.md"), "w").write("\n".join(out) + "\n")
print(out[-1])
