#!/usr/bin/env bash
# usage: confirm_seed_sh.sh <worktree> <seed-subdir> <demo-script-relative-to-seed-dir>
# like confirm_seed.sh, for demonstrations that are shell scripts driving the CLI
set -uo pipefail
WT="$1"; SD="$2"; DEMO="$3"
cd "$WT"
LOG="$WT/$SD/confirm.log"; : > "$LOG"
export CARGO_NET_OFFLINE=true
git checkout -- . >>"$LOG" 2>&1
echo "== clean tree: demo must pass" >>"$LOG"
bash "$SD/$DEMO" >>"$LOG" 2>&1; A=$?
echo "clean_demo_rc=$A" >>"$LOG"
git apply "$SD/patch.diff" >>"$LOG" 2>&1 || { echo "APPLY_FAILED" >>"$LOG"; exit 3; }
echo "== patched tree: demo must fail" >>"$LOG"
bash "$SD/$DEMO" >>"$LOG" 2>&1; B=$?
echo "patched_demo_rc=$B" >>"$LOG"
echo "== patched tree: full suite must pass" >>"$LOG"
cargo nextest run --workspace --no-fail-fast --offline --test-threads 8 2>&1 | tail -5 >>"$LOG"; C=${PIPESTATUS[0]}
echo "patched_suite_rc=$C" >>"$LOG"
git checkout -- . >>"$LOG" 2>&1
echo "RESULT clean_demo_rc=$A patched_demo_rc=$B patched_suite_rc=$C" | tee -a "$LOG"
