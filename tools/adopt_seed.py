#!/usr/bin/env python3
"""usage: adopt_seed.py <worktree-name> <k> <property> <seed-id>
copies a confirmed seed from /tmp/wt/<name>/SEED/<k> to /verif/seeded/<seed-id>/ and runs the property's
check (and any extra checks given) against /repo with the patch applied; records everything in meta.json"""
import json, os, shutil, subprocess, sys, glob, re
name, k, prop, sid = sys.argv[1:5]
if subprocess.run(["git", "-C", "/repo", "status", "--porcelain", "--untracked-files=no"], capture_output=True, text=True).stdout.strip():
    sys.exit("refusing to run: /repo has uncommitted changes (they would be lost by the checkout at the end)")
extra = sys.argv[5:]
src = ("/tmp/seedstage/%s/SEED/%s" % (name, k)) if os.path.isdir("/tmp/seedstage/%s/SEED/%s" % (name, k)) else ("/tmp/wt/%s/SEED/%s" % (name, k))
dst = "/verif/seeded/%s" % sid
os.makedirs(dst, exist_ok=True)
if os.path.isdir(src):
    for f in os.listdir(src):
        shutil.copy(os.path.join(src, f), os.path.join(dst, f))
conf = open(os.path.join(dst, "confirm.log")).read() if os.path.exists(os.path.join(dst, "confirm.log")) else ""
m = re.search(r"RESULT clean_demo_rc=(\d+) patched_demo_rc=(\d+) patched_suite_rc=(\d+)", conf)
suite = re.findall(r"Summary.*", conf)
meta = {"seed_id": sid, "property": prop, "origin": "independent sub-agent given only the property text and a scratch worktree (pinned commit 086a8fa)",
        "confirmed_by_me": {"clean_tree_demo_rc": int(m.group(1)) if m else None, "patched_demo_rc": int(m.group(2)) if m else None,
                            "patched_full_suite_rc": int(m.group(3)) if m else None, "suite_summary": suite[-1:] ,
                            "command": "tools/confirm_seed.sh (cargo test --test <demo>; cargo nextest run --workspace) in the scratch worktree"}}
notes = os.path.join(dst, "notes.md")
meta["needs_to_manifest"] = open(notes).read()[:1500] if os.path.exists(notes) else ""
# apply to /repo (HEAD incl. fix commits) and run checks
patch = os.path.join(dst, "patch.diff")
alt = os.path.join(dst, "patch.rebased.diff")
use = alt if os.path.exists(alt) else patch
r = subprocess.run(["git", "-C", "/repo", "apply", "--check", use], capture_output=True, text=True)
meta["applies_to_repo_head"] = (r.returncode == 0)
meta["patch_used_for_checks"] = os.path.basename(use)
results = {}
if r.returncode == 0:
    subprocess.run(["git", "-C", "/repo", "apply", use], check=True)
    try:
        for c in [prop] + extra:
            p = subprocess.run(["/verif/bin/check", c], capture_output=True, text=True,
                               env=dict(os.environ, VERIF_EVIDENCE_DIR="/var/tmp/vrl-verif.adopt.evidence"))
            lines = [l for l in p.stdout.splitlines() if l.startswith("VIOLATION") or l.startswith("  R") and "instances=" not in l or "FAIL-CLOSED" in l]
            results[c] = {"rc": p.returncode, "report": lines[:12]}
    finally:
        subprocess.run(["git", "-C", "/repo", "checkout", "--", "."], check=True)
else:
    results["apply_error"] = r.stderr[:500]
meta["checks_run_against_patched_repo"] = results
meta["caught_by"] = [c for c, v in results.items() if isinstance(v, dict) and v.get("rc") == 1]
json.dump(meta, open(os.path.join(dst, "meta.json"), "w"), indent=1)
print(json.dumps({"seed": sid, "applies": meta["applies_to_repo_head"], "caught_by": meta["caught_by"],
                  "results": {c: (v.get("rc"), v.get("report", [])[:3]) if isinstance(v, dict) else v for c, v in results.items()}}, indent=1))
