#!/usr/bin/env python3
"""Regenerates MANIFEST.json from the table below (single source of truth for claims)."""
import json, os
V = os.path.dirname(os.path.dirname(os.path.abspath(__file__)))

TRUST = ("Trusted base: rustc nightly front end and MIR construction (the analysed MIR is what `cargo +nightly check --lib` builds from /repo's "
         "current tree, default features); the fact serialiser driver/src/main.rs; the Python rule engine; frozen exception/pass-on tables "
         "listed with reasons in the rule sources and evidence. Decides the named structural clauses only, never the behaviour on all inputs.")

CLAIMS = {
 "C06": ("absorb-site dataflow (P-VAR over MIR: drop flags + discriminant refinement) + sibling agreement of closure runners + P-VAR on child-evaluation Results + who-may-destructure",
         "R06a: no feasible drop/absorbing-combinator/unreviewed-move of an expression-originated ExpressionError can still hold `Return`; "
         "R06b: Return->value conversion exists in Runtime::resolve and in every closure Runner entry point; R06c: inside every expression's resolve a child "
         "is evaluated only while all earlier children succeeded (nothing of the same expression runs after a return; P-VAR on the children's Results); "
         "R06d: the Return payload is taken out only in Runtime::resolve and Runner::call; R06e: every body invoking a closure Runner hands the Runner's Result on and never re-invokes it after a failure. Necessary conditions of C06; the returned value is not decided.", "§4 C06"),
 "C07": ("absorb-site dataflow (P-VAR over MIR) + outcome-mapping check in Runtime::resolve",
         "R07a: no feasible absorb site of an expression-originated ExpressionError can still hold `Abort`; R07b: Runtime::resolve maps Abort "
         "to Terminate::Abort and never to Error/Ok; R07c: inside every expression's resolve no child is evaluated after an earlier child aborted; R07d: closure-taking functions stop iterating at the first failed closure invocation. "
         "This is essentially the whole interception mechanism; message contents are not decided.", "§4 C07"),
 "C13": ("must-pass-through (release on all exits) over MIR CFG + who-may-call + compile-time twin pairing",
         "R13a: each closure::insert is post-dominated on all non-unwind paths by closure::cleanup of the same ident with the saved value; "
         "R13b: only Runner may swap variables; R13c: compile_closure restores/removes closure variables before every exit; R13d: parameters are restored in "
         "reverse order of binding (found and repaired: `|x, x|` leaked the key); R13e: the run-time cleanup both restores a shadowed value and un-defines a parameter that shadowed nothing.", "§4 C13"),
}

CLAIMS.update({
 "C15": ("who-may-call over resolved `dyn Target` call sites + must-pass-through of the compile-time read-only guards",
         "R15a: only assignment::Target::insert and del::del reach mutating `dyn Target` methods; R15b: every Target in a compiled assignment "
         "passed a `?`-checked verify_mutable that rejects read-only external paths; R15c: Del::compile builds DelFn only past the read-only test. "
         "Does not decide the path algebra of is_read_only_path.", "§4 C15"),
 "C16": ("must-pass-through + def-use flow in the compiler's recording sites, who-may-construct Query",
         "R16a-d: every compiled external Query and assignment target is pushed to the vectors ProgramInfo is built from, and every path given "
         "to a `dyn Target` method derives from such a recorded source. Does not decide ancestor/descendant coverage semantics.", "§4 C16"),
 "C17": ("error-discipline classification of the consumers of every `dyn Target` call result + variant dataflow of the root check",
         "R17a: results of all `dyn Target` calls are consumed by .ok()-chains / drop / match, never unwrap/expect/`?`; R17b: Runtime::resolve "
         "turns a failed or empty root read into Terminate::Error before the program starts; R17c: no mutation on a failure edge; R17d: at most one mutating target operation per path.", "§4 C17"),
})

CLAIMS.update({
 "C09": ("control-dependence via P-VAR (opcode + left-value variant refinement) over Op::resolve, try_or, IfStatement::resolve",
         "R09a-c: every evaluation of the right operand under `||`/`&&`/`??` and of the if/else blocks is confined to the edge on which the "
         "language says it runs; decides the 'unevaluated operands have no side effects' clause, not truth tables.", "§4 C09"),
})

CLAIMS.update({
 "C14": ("effect analysis (P-EFFECT over the resolved call graph with CHA), static/hash-iteration site review tables, field-coverage check of clear()",
         "R14a: only exempt functions reach clock/RNG/env/host/net/fs callees from resolve or compile; R14b: shared mutable statics are reviewed; "
         "R14c: every RandomState hash iteration site is reviewed order-insensitive or structurally sorted; R14e: Runtime::clear clears all state. "
         "Found three real nondeterminism defects (fixed) and five by-design clock reads (known findings).", "§4 C14"),
 "C34": ("table agreement: SIDE_EFFECT_FUNCTIONS (read from const MIR) vs pure() constants and P-EFFECT write atoms of all 203 functions",
         "R34a-c: every impure or target/variable-writing closure-less function is in the checker's side-effect table and the table has no unknown names; R34d: a call carrying a closure is never reported as unused (CFG reachability from the Some edge).", "§4 C34"),
 "C36": ("who-may-call / effect analysis of Context::timezone and chrono::Local + def-use check of the explicit-argument default",
         "R36a-d: the configured zone can enter results only through the frozen set of wall-clock interpreters, and only as the default of an absent "
         "explicit `timezone` argument.", "§4 C36"),
})

CLAIMS.update({
 "C10": ("P-VAR arm analysis of the comparison methods (variant-pair states, operand provenance), opcode->callee dispatch table, integer-exactness dataflow",
         "R10a: each of try_gt/ge/lt/le compares with its own operator on (self, rhs) and the four siblings accept the same variant pairs; "
         "R10b: Op::resolve's opcode->method table and the `!=` negation; R10c: two integers are compared as i64, never through f64; R10d exact float equality; R10e no total order (total_cmp) in the comparison methods.", "§4 C10"),
 "C11": ("P-VAR arm analysis of try_add/sub/mul/div/rem: operator kind, operand order/casts per variant pair, must-pass zero tests, NaN funnel",
         "R11a-e: wrapping_* on the integer arm and no checked i64 arithmetic; f64 BinOps of the method's own kind with IntToFloat on the integer side; "
         "all float results go through float_result; Div/Rem only after the divisor's zero tests; repeat count guarded.", "§4 C11"),
})

CLAIMS.update({
 "C01": ("agreement analysis between type_info and resolve of every `impl Expression` (child-set comparison, effect pairing via P-EFFECT, taint through join functions, per-variant table) + abstract interpretation of Op::type_info's MIR over a finite kind domain (P-ABS) compared with the operators' result variants (P-VAR)",
         "R01a state threading, R01b mutator<->type-effect pairing, R01c join discipline (Details::merge), R01d literal base cases, R01e operator result kinds contain every variant the operator can return, R01f state versions: the returned TypeState of Op/If/Not/Group/Return contains every always-evaluated child and no conditionally evaluated one (found and repaired: `x = 10 / (b = 2)`), R01g branch isolation in compile_if_statement, R01h closure effects in FunctionCall::type_info (recorded known finding, upstream TODO). Necessary conditions of type "
         "soundness; found LocalEnv::merge, Return::type_info and del-on-local defects (fixed).", "§4 C01"),
 "C08": ("P-VAR over Op::resolve and Variant::resolve with provenance classification of stored values; table agreement of DefaultValue",
         "R08a-d: `??` evaluates rhs only on Err, returns Ok(lhs) unchanged and otherwise returns rhs's Result untested; the four (outcome,target) stores of "
         "`ok, err =` and its result carry the defined values, `ok` stored before `err` in both arms; the stored default is default_value() of the expression type and is included in ok's type; default_value pairs each kind with a literal of that kind.", "§4 C08"),
 "C12": ("effect pairing + join taint (shared with C01), opcode->method agreement of constant folding, who-may-consume table for resolve_constant",
         "R12a-e: constant knowledge is invalidated wherever values are written, dropped at joins, folded with the same methods as at run time, never given to "
         "iterating closure parameters, and consumed only by reviewed sites; R12f-i: state order of the assigned constant, path assignments, who-may-produce constants, no field-wise Details update.", "§4 C12"),
})

CLAIMS.update({
 "C03": ("table agreement over all 203 functions (F-MAP + P-CONST): ArgumentList keywords vs PARAMETERS; consumer classification of coercion results with P-VAR variant knowledge; producer classification of returned values (P-RET) vs return_kind() bits and vs the abstractly evaluated type_def (P-ABS); interprocedural flow of restricted argument values into kind-agnostic conversions; dataflow of Kind operands in the call builder",
         "R03a keyword agreement, R03d no unwrap/expect on a coercion of a run-time value in resolve-reachable code, R03f progressive type check on the argument's own kind, R03c returned Value variants are inside the documented return kinds, R03g inside the type_def evaluated under the declared parameter kinds (P-ABS), R03h restricted arguments never reach a kind-agnostic conversion unchecked. Found and fixed three panicking functions and the compact/flatten type_def.", "§4 C03"),
 "C04": ("panic-class rules: coercion/target result consumers, keyword agreement, overflow-capable negation, guarded sign-losing casts (dominance + alias analysis), unwrap-on-content-dependent-call, who-may-call (Decimal operators), enum validation by equality",
         "R04a,b,c,e,f,g,h,i,j,k,l,m,n decide absence of thirteen classes of host panic (coercion/target unwraps, keyword mismatch, negation overflow, sign-losing casts, char-count byte indices, zero-intolerant operations and checked shifts, regex Captures indexing, unwrap/expect directly on a content-dependent fallible library call, panicking Decimal operators, enum arguments accepted other than by equality with a declared variant, unguarded rand::Rng::random_range, an accepted enum variant without a dispatch arm); the remaining panic-capable sites (indexing, internal unwraps, third-party) are explicitly undecided.", "§4 C04"),
 "C05": ("dominance/guard analysis of every signed->unsigned cast of a run-time integer in stdlib/value code; backward flow of the end of every iterated Range to run-time integer values",
         "R05a: a user-supplied signed integer becomes an unsigned count only behind an order test (or bounded after the cast); R05b: no iterated integer Range in stdlib code takes its end from the value of a run-time integer (try_integer / unsigned_abs / signed parameter) without a min/clamp bound (found `format_number(x, scale: huge)`, recorded as known finding). Two hazard classes of non-termination, not termination in general.", "§4 C05"),
})

CLAIMS.update({
 "C23": ("P-TRIE literal-dispatch reconstruction + per-literal agreement of monomorphic callee tokens between encrypt and decrypt",
         "R23a name-set equality (encrypt / decrypt / validator, and encrypt_ip/decrypt_ip); R23b same cipher, mode, padding and key/IV sizes per name on both sides.", "§4 C23"),
 "C27": ("P-TRIE (byte tries and str chains) + name normalisation of the instantiated hasher / constant per variant literal",
         "R27a each variant's leaf instantiates the algorithm of that name and no sibling's; R27b validator table == dispatch set; R27c md5/sha1/seahash use their own crate; R27d no narrowing integer cast on a hasher's output (P-FLOW); R27e every success return of resolve is dominated by a read of the algorithm/variant field; R27f lossy UTF-8 conversions inside the digest functions touch only the algorithm/variant argument (backward flow of the receiver to a named parameter), never the message or key.", "§4 C27"),
})

CLAIMS.update({
 "C30": ("alphabet agreement: PEG-alternation reader over grammar.pest vs P-CHARSET (P-VAR over the char switch) of the escape functions; formatter-instantiation scan vs NUMERIC_TERM",
         "R30a every character the grammar treats as special for unquoted terms is escaped by lucene_escape; R30b quoted_escape covers PHRASE's needs; R30c numeric alphabet: float formatters called by the renderers emit only exponent letters NUMERIC_TERM accepts (callee instantiation names from MIR vs grammar.pest). Found and fixed the whitespace defect.", "§4 C30"),
 "C32": ("recursion-guard check: dominance of the membership test over the recursive call + SCC analysis of the local call graph; dominance of an exactness comparison over float->int casts",
         "R32a parse_alias tests alias_stack before descending (hit => Err, miss => push); R32b no recursive cycle bypasses parse_alias; R32c (numeric filters) every kept float->integer cast of a Value::Float payload in grok_filter is dominated by an exactness guard (dominator query over cast/compare statements); R32d parse_grok_rules hands the rule text to parse_pattern without any str/String rewriting call in its body or closures (who-may-call over the family, with a positive control for the callee pattern). Cycle-rejection clause and one necessary condition of the filters clause.", "§4 C32"),
 "C33": ("expression-tree extraction of Span::new arguments: unchecked-subtraction and character-vs-byte unit taint; consumer check of Formatter::fmt",
         "R33a no raw subtraction into Span::new outside a reviewed site; R33b Formatter::fmt and its helpers have no unwrap/expect/indexing; R33c no character-unit quantity becomes a byte offset. Found and fixed the template-span defect.", "§4 C33"),
})

CLAIMS.update({
 "C20": ("P-CHARSET: P-VAR with an interval domain over the tested character, per parser state",
         "R20a the serializer's unquoted alphabet is accepted by the JIT path parser in every field state; R20b serializer escapes == parser's decoded escapes; "
         "R20c the VRL lexer's identifier alphabet is a subset of the parser's. Alphabet agreement only.", "§4 C20"),
})

CLAIMS.update({
 "C02": ("F-MAP classification of always-infallible functions + P-VAR reachability of message-error constructions under the declared parameter kinds; flag-pairing dominance; abstract interpretation of Op::type_info's MIR (P-ABS) against the error-capable variant pairs of each VrlValueArithmetic method (P-VAR)",
         "R02a: a function that is always typed infallible has no reachable message-error construction in resolve (4 genuine findings recorded); "
         "R02c: abortable/fallible program flags are set where their cause is compiled; R02d: an operator typed infallible for operand kinds (K1, K2) has no variant pair inside K1 x K2 that reaches a type/zero error in its method; R02e: a fallible operand that is always evaluated makes the operation fallible (found and repaired: `to_int(.x) / 2`), also for Not/Group/Query; R02g a coercion narrower than the declared parameter kind is matched by a fallible type_def (P-VAR x P-ABS); R02h per-argument-type refinement of R02a; R02i literal-range agreement for cast-then-bounded integer arguments (found and repaired: `encode_gzip(\"x\", -1)`); R01g (shared with C01) branch isolation while compiling if/else. Not the compiler's whole fallibility calculus.", "§4 C02"),
})

NA = {}

def main():
    props = [json.loads(l) for l in open(os.path.join(V, "properties.jsonl"))]
    na_path = os.path.join(V, "tools", "not_applicable.json")
    na = json.load(open(na_path)) if os.path.exists(na_path) else {}
    checks = []
    for p in props:
        pid = p["id"]
        if pid in CLAIMS:
            tech, text, ref = CLAIMS[pid]
            checks.append({
                "property_id": pid,
                "quick_cmd": "bin/check %s --tier quick" % pid,
                "thorough_cmd": "bin/check %s --tier thorough" % pid,
                "evidence_file": "/verif/evidence/%s.json" % pid,
                "replay_cmd_template": "cat {path}",
                "engine": "vrl-facts+rules",
                "level_claimed": {"category": "other", "text": "static necessary-condition analysis: " + text, "design_ref": "DESIGN.md " + ref},
                "level_note": TRUST,
                "technique": "static analysis: " + tech,
            })
    not_app = []
    for p in props:
        pid = p["id"]
        if pid not in CLAIMS:
            not_app.append({"property_id": pid, "reason": na.get(pid, "no check built yet in this session; see DESIGN.md §4 for the planned clause or the n/a reason")})
    m = {
        "version": 1,
        "setup_cmd": "bin/setup",
        "hooks": {"guard": "vrl_verif", "enable": "none needed: static analysis reads the unmodified source; no instrumentation commits exist",
                  "baseline_off_cmd": "cd /repo && cargo nextest run --workspace --no-fail-fast --tool-config-file pb:/w/lib/nextest.toml --profile pb --test-threads 8 --offline",
                  "source_commits": [], "add_only": True},
        "engines": [
            {"name": "vrl-facts", "path": "driver/", "serves_properties": sorted(CLAIMS), "kind_free_text": "rustc_private driver (nightly) serialising resolved MIR of /repo's lib target to JSON facts"},
            {"name": "rules", "path": "rules/", "serves_properties": sorted(CLAIMS), "kind_free_text": "Python rule engine: call graph, dominators, P-VAR variant dataflow, def-use flow, table agreement"},
        ],
        "checks": checks,
        "not_applicable": not_app,
        "notes": "All checks are static (no VRL program, stdlib function or repository test is executed to reach a verdict). Genuine defects found were repaired in /repo as `fix:` commits and are listed in known_findings.txt.",
    }
    json.dump(m, open(os.path.join(V, "MANIFEST.json"), "w"), indent=1)
    print("MANIFEST: %d checks, %d n/a" % (len(checks), len(not_app)))

if __name__ == "__main__":
    main()
