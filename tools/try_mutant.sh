#!/usr/bin/env bash
# usage: try_mutant.sh <patch> <Cnn> [<Cnn>...] : apply to /repo, run checks, revert. Prints rc per check.
set -uo pipefail
P="$1"; shift
if [[ -n "$(git -C /repo status --porcelain --untracked-files=no)" ]]; then echo "refusing: /repo has uncommitted changes"; exit 8; fi
git -C /repo apply "$P" || { echo "APPLY FAILED $P"; exit 9; }
for C in "$@"; do
  OUT="$(/verif/bin/check "$C" 2>&1)"; RC=$?
  echo "[$(basename "$P")] $C rc=$RC"
  echo "$OUT" | grep -E "^  R[0-9]|VIOLATION|FAIL-CLOSED" | grep -v "instances=" | cut -c1-260
done
git -C /repo checkout -- .
