#!/usr/bin/env python3
"""debug aid: pretty-print the facts of bodies whose name contains the given substring"""
import sys, glob, os, json
sys.path.insert(0, os.path.join(os.path.dirname(os.path.abspath(__file__)), '..', 'rules'))
from facts import *

def opstr(o):
    k=o.get('k')
    if k in('copy','move'): return ('move ' if k=='move' else '')+proj_str(o['p'])
    if k=='const':
        for x in ('str','int','bool','char','float','bytes'):
            if x in o: return 'const %s:%r'%(x,o[x])
        if 'fn' in o: return 'fn '+o.get('rfn',o['fn'])
        if 'item' in o: return 'item '+o['item']+(('#p%d'%o['promoted']) if 'promoted' in o else '')
        return 'const<%s>'%o.get('ty')
    return str(o)
def rvstr(rv):
    k=rv['k']
    if k=='use': return opstr(rv['op'])
    if k=='ref': return ('&mut ' if rv['mut'] else '&')+proj_str(rv['p'])
    if k=='rawptr': return '&raw '+proj_str(rv['p'])
    if k=='cast': return '%s as %s (%s, from %s)'%(opstr(rv['op']),rv['to'],rv['ck'],rv['from'])
    if k=='binop': return '%s(%s, %s) [%s]'%(rv['op'],opstr(rv['a']),opstr(rv['b']),rv['tya'])
    if k=='unop': return '%s(%s) [%s]'%(rv['op'],opstr(rv['a']),rv['tya'])
    if k=='discr': return 'discriminant(%s) [%s]'%(proj_str(rv['p']),rv.get('adt'))
    if k=='agg': return '%s::%s{%s}'%(rv.get('adt'),rv.get('variant',rv.get('closure','')),', '.join('%s: %s'%(n,opstr(o)) for n,o in zip(rv.get('fnames',[])+['?']*99,rv['ops'])))
    return str(rv)
def dump(b):
    print('fn',b.name,'  [%s:%d] kind=%s argc=%d'%(b.file,b.line,b.kind,b.argc))
    for i,l in enumerate(b.locals):
        print('   let _%d: %s%s'%(i,l['ty'],('  // '+l['n']) if 'n' in l else ''))
    for u in b.upvars: print('   upvar',u['name'],proj_str(u['p']))
    for bi,blk in enumerate(b.blocks):
        print(' bb%d%s:'%(bi,' (cleanup)' if blk.get('cleanup') else ''))
        for s in blk['s']:
            print('     %s = %s   // ln %s'%(proj_str(s['d']),rvstr(s['rv']),s.get('ln')))
        t=blk['t'];k=t['k']
        if k=='call':
            print('     %s = %s(%s) -> bb%s   // ln %s %s'%(proj_str(t['dest']),t.get('rfn_full') or t.get('fn_full') or t.get('fnptr'),', '.join(opstr(a) for a in t['args']),t.get('t'),t['ln'],'DYN' if t.get('dyn') else ''))
        elif k=='switch':
            print('     switchInt(%s) [%s] -> %s otherwise bb%d'%(opstr(t['op']),t['ty'],t['targets'],t['otherwise']))
        elif k=='drop': print('     drop(%s) [%s] -> bb%d   // ln %s'%(proj_str(t['p']),t['ty'],t['t'],t['ln']))
        elif k=='assert': print('     assert(%s == %s, %s %s) -> bb%d'%(opstr(t['cond']),t['expected'],t['msg'],t.get('ovop',''),t['t']))
        elif k=='goto': print('     goto bb%d'%t['t'])
        else: print('     ',k)
if __name__=='__main__':
    d=os.environ.get("FACTS") or [p.rstrip("/") for p in sorted(glob.glob("/verif/.work/facts/*/"),key=os.path.getmtime) if os.path.exists(p+"ok")][-1]
    F=Facts(d)
    exact=[a for a in sys.argv[1:] if a.startswith('=')]
    for n in F.names():
        if any(a in n for a in sys.argv[1:] if not a.startswith('=')) or ('='+n) in exact:
            dump(F.body(n)); print()
