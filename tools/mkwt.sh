#!/usr/bin/env bash
# usage: tools/mkwt.sh <name>  -> creates /tmp/wt/<name> as a detached worktree of /repo with a warm target dir
set -euo pipefail
N="$1"; D="/tmp/wt/$N"
mkdir -p /tmp/wt
git -C /repo worktree add --detach "$D" HEAD >/dev/null 2>&1
mkdir -p "$D/target"; rsync -a --exclude incremental --exclude "deps/tmp_*" --exclude "deps/seed_*" --exclude "deps/*demo*" /repo/target/ "$D/target/"
mkdir -p "$D/SEED"
echo "$D"
