#!/usr/bin/env bash
# runs every claimed check's quick command on the current tree (regenerates all evidence); prints one line per property
cd "$(dirname "${BASH_SOURCE[0]}")/.."
RC=0
for P in $(python3 -c "import json;print(' '.join(c['property_id'] for c in json.load(open('MANIFEST.json'))['checks']))"); do
  OUT="$(bin/check "$P" --tier "${1:-quick}" 2>&1)"; R=$?
  echo "$(head -1 <<<"$OUT") rc=$R"
  [[ $R -ne 0 ]] && { RC=1; grep -E "VIOLATION|FAIL-CLOSED" <<<"$OUT" | head -5; }
done
exit $RC
