// vrl-facts: a rustc_private driver that serialises the type-checked, trait-resolved MIR of the
// local crate as JSON "facts". It judges nothing; the rule engine (../rules) does.
//
// Used as RUSTC_WORKSPACE_WRAPPER: argv = [self, rustc, args...]. Facts are only written for the
// crate named by VRL_FACTS_CRATE (default "vrl") and only when VRL_FACTS_OUT is set; every other
// invocation behaves like plain rustc.
#![feature(rustc_private)]
#![allow(clippy::all)]

extern crate rustc_abi;
extern crate rustc_driver;
extern crate rustc_hir;
extern crate rustc_interface;
extern crate rustc_middle;
extern crate rustc_span;

use std::collections::{BTreeMap, BTreeSet};
use std::fmt::Write as _;
use std::io::Write as _;

use rustc_driver::{Callbacks, Compilation};
use rustc_hir::def::DefKind;
use rustc_hir::def_id::{DefId, LocalDefId, LOCAL_CRATE};
use rustc_interface::interface::Compiler;
use rustc_middle::mir::{
    self, AggregateKind, BasicBlock, Body, CastKind, Const, ConstValue, Operand, Place,
    PlaceElem, ProjectionElem, Rvalue, StatementKind, TerminatorKind,
};
use rustc_middle::ty::print::with_no_trimmed_paths;
use rustc_middle::ty::{self, Instance, Ty, TyCtxt, TypingEnv};
use rustc_span::Span;

// ------------------------------------------------------------------------------------------------
// tiny JSON writer

fn esc(s: &str, out: &mut String) {
    out.push('"');
    for c in s.chars() {
        match c {
            '"' => out.push_str("\\\""),
            '\\' => out.push_str("\\\\"),
            '\n' => out.push_str("\\n"),
            '\r' => out.push_str("\\r"),
            '\t' => out.push_str("\\t"),
            c if (c as u32) < 0x20 => {
                let _ = write!(out, "\\u{:04x}", c as u32);
            }
            c => out.push(c),
        }
    }
    out.push('"');
}

fn js(s: &str) -> String {
    let mut o = String::with_capacity(s.len() + 2);
    esc(s, &mut o);
    o
}

struct Obj {
    s: String,
    first: bool,
}
impl Obj {
    fn new() -> Self {
        Obj { s: String::from("{"), first: true }
    }
    fn key(&mut self, k: &str) {
        if !self.first {
            self.s.push(',');
        }
        self.first = false;
        esc(k, &mut self.s);
        self.s.push(':');
    }
    fn str(&mut self, k: &str, v: &str) -> &mut Self {
        self.key(k);
        esc(v, &mut self.s);
        self
    }
    fn raw(&mut self, k: &str, v: &str) -> &mut Self {
        self.key(k);
        self.s.push_str(v);
        self
    }
    fn num(&mut self, k: &str, v: i128) -> &mut Self {
        self.key(k);
        let _ = write!(self.s, "{}", v);
        self
    }
    fn boolean(&mut self, k: &str, v: bool) -> &mut Self {
        self.key(k);
        self.s.push_str(if v { "true" } else { "false" });
        self
    }
    fn done(mut self) -> String {
        self.s.push('}');
        self.s
    }
}

fn arr(items: &[String]) -> String {
    let mut s = String::from("[");
    for (i, it) in items.iter().enumerate() {
        if i > 0 {
            s.push(',');
        }
        s.push_str(it);
    }
    s.push(']');
    s
}

// ------------------------------------------------------------------------------------------------

struct Cx<'tcx> {
    tcx: TyCtxt<'tcx>,
    adts_seen: BTreeMap<String, String>,
    cur_callees: BTreeSet<String>,
    cur_statics: BTreeSet<String>,
}

fn path_of(tcx: TyCtxt<'_>, did: DefId) -> String {
    with_no_trimmed_paths!(tcx.def_path_str(did))
}

fn ty_s(ty: Ty<'_>) -> String {
    with_no_trimmed_paths!(format!("{}", ty))
}

fn loc(tcx: TyCtxt<'_>, span: Span) -> (String, usize, usize, bool) {
    let sm = tcx.sess.source_map();
    let exp = span.from_expansion();
    // attribute macro-generated code to the outermost call site so file:line is meaningful
    let sp = if exp { span.source_callsite() } else { span };
    let lo = sm.lookup_char_pos(sp.lo());
    let file = match &lo.file.name {
        rustc_span::FileName::Real(r) => match r.local_path() {
            Some(p) => p.to_string_lossy().into_owned(),
            None => format!("{:?}", r),
        },
        other => format!("{:?}", other),
    };
    (file, lo.line, lo.col.0 + 1, exp)
}

impl<'tcx> Cx<'tcx> {
    fn note_adt(&mut self, adt: ty::AdtDef<'tcx>) -> String {
        let tcx = self.tcx;
        let name = path_of(tcx, adt.did());
        if !self.adts_seen.contains_key(&name) {
            let mut o = Obj::new();
            o.str("name", &name);
            o.str(
                "kind",
                if adt.is_enum() {
                    "enum"
                } else if adt.is_union() {
                    "union"
                } else {
                    "struct"
                },
            );
            o.boolean("local", adt.did().is_local());
            let mut vs = Vec::new();
            if adt.is_enum() {
                for (vi, d) in adt.discriminants(tcx) {
                    let v = adt.variant(vi);
                    let mut vo = Obj::new();
                    vo.str("name", v.name.as_str());
                    vo.num("idx", vi.as_u32() as i128);
                    vo.str("discr", &format!("{}", d.val));
                    let fs: Vec<String> = v.fields.iter().map(|f| js(f.name.as_str())).collect();
                    vo.raw("fields", &arr(&fs));
                    if adt.did().is_local() {
                        let ft: Vec<String> = v
                            .fields
                            .iter()
                            .map(|f| {
                                js(&ty_s(tcx.type_of(f.did).instantiate_identity().skip_norm_wip()))
                            })
                            .collect();
                        vo.raw("ftys", &arr(&ft));
                    }
                    vs.push(vo.done());
                }
            } else {
                for (vi, v) in adt.variants().iter_enumerated() {
                    let mut vo = Obj::new();
                    vo.str("name", v.name.as_str());
                    vo.num("idx", vi.as_u32() as i128);
                    let fs: Vec<String> = v.fields.iter().map(|f| js(f.name.as_str())).collect();
                    vo.raw("fields", &arr(&fs));
                    if adt.did().is_local() {
                        let ft: Vec<String> = v
                            .fields
                            .iter()
                            .map(|f| {
                                js(&ty_s(tcx.type_of(f.did).instantiate_identity().skip_norm_wip()))
                            })
                            .collect();
                        vo.raw("ftys", &arr(&ft));
                    }
                    vs.push(vo.done());
                }
            }
            o.raw("variants", &arr(&vs));
            self.adts_seen.insert(name.clone(), o.done());
        }
        name
    }

    fn place(&mut self, body: &Body<'tcx>, p: &Place<'tcx>) -> String {
        let tcx = self.tcx;
        let mut o = Obj::new();
        o.num("l", p.local.as_u32() as i128);
        if !p.projection.is_empty() {
            let mut pty = mir::PlaceTy::from_ty(body.local_decls[p.local].ty);
            let mut projs = Vec::new();
            for elem in p.projection.iter() {
                let e: PlaceElem<'tcx> = elem;
                let s = match e {
                    ProjectionElem::Deref => js("*"),
                    ProjectionElem::Field(f, fty) => {
                        let mut fo = Obj::new();
                        let mut fname = format!("{}", f.as_u32());
                        if let ty::Adt(adt, _) = pty.ty.kind() {
                            let vi = pty.variant_index.unwrap_or(rustc_abi::FIRST_VARIANT);
                            if !adt.is_union() && vi.as_usize() < adt.variants().len() {
                                let v = adt.variant(vi);
                                if f.as_usize() < v.fields.len() {
                                    fname = v.fields[f].name.as_str().to_string();
                                }
                            }
                        }
                        fo.str("f", &fname);
                        fo.str("ty", &ty_s(fty));
                        fo.done()
                    }
                    ProjectionElem::Downcast(name, vi) => {
                        let mut fo = Obj::new();
                        let mut vname =
                            name.map(|n| n.as_str().to_string()).unwrap_or_default();
                        if vname.is_empty() {
                            if let ty::Adt(adt, _) = pty.ty.kind() {
                                vname = adt.variant(vi).name.as_str().to_string();
                            }
                        }
                        fo.str("v", &vname);
                        fo.done()
                    }
                    ProjectionElem::Index(l) => {
                        let mut fo = Obj::new();
                        fo.num("idx", l.as_u32() as i128);
                        fo.done()
                    }
                    ProjectionElem::ConstantIndex { offset, from_end, .. } => {
                        let mut fo = Obj::new();
                        fo.num("cidx", offset as i128);
                        fo.boolean("from_end", from_end);
                        fo.done()
                    }
                    ProjectionElem::Subslice { .. } => js("subslice"),
                    ProjectionElem::OpaqueCast(_) => js("opaque"),
                    ProjectionElem::UnwrapUnsafeBinder(_) => js("unbinder"),
                };
                projs.push(s);
                pty = pty.projection_ty(tcx, e);
            }
            o.raw("p", &arr(&projs));
        }
        o.done()
    }

    fn konst(&mut self, body_did: DefId, c: &mir::ConstOperand<'tcx>) -> String {
        let tcx = self.tcx;
        let ty = c.const_.ty();
        let mut o = Obj::new();
        o.str("k", "const");
        o.str("ty", &ty_s(ty));
        // function items / closures as values
        match ty.kind() {
            ty::FnDef(did, args) => {
                o.str("fn", &path_of(tcx, *did));
                let r = Instance::try_resolve(
                    tcx,
                    TypingEnv::post_analysis(tcx, body_did),
                    *did,
                    args,
                );
                if let Ok(Some(inst)) = r {
                    let rn = path_of(tcx, inst.def_id());
                    o.str("rfn", &rn);
                    // a function item used as a value is (over-approximately) a callee
                    self.cur_callees.insert(rn);
                } else {
                    self.cur_callees.insert(format!("? {}", path_of(tcx, *did)));
                }
                return o.done();
            }
            _ => {}
        }
        if let Const::Unevaluated(uv, _) = c.const_ {
            o.str("item", &path_of(tcx, uv.def));
            if let Some(p) = uv.promoted {
                o.num("promoted", p.as_u32() as i128);
            }
        }
        let typing_env = TypingEnv::post_analysis(tcx, body_did);
        let val: Option<ConstValue> = match c.const_ {
            Const::Val(v, _) => Some(v),
            Const::Unevaluated(uv, _) if uv.promoted.is_none() => {
                // named constants such as kind::BYTES: evaluate when monomorphic
                if uv.args.is_empty() {
                    c.const_.eval(tcx, typing_env, c.span).ok()
                } else {
                    None
                }
            }
            Const::Ty(_, ct) => {
                if let Some(v) = ct.try_to_leaf() {
                    o.str("int", &format!("{}", v.to_bits_unchecked()));
                    None
                } else {
                    // valtree constants (e.g. string literals in match patterns)
                    c.const_.eval(tcx, typing_env, c.span).ok()
                }
            }
            _ => None,
        };
        if let Some(v) = val {
            match v {
                ConstValue::Scalar(mir::interpret::Scalar::Int(si)) => {
                    let bits = si.to_bits_unchecked();
                    match ty.kind() {
                        ty::Bool => {
                            o.boolean("bool", bits != 0);
                        }
                        ty::Char => {
                            o.num("char", bits as i128);
                        }
                        ty::Int(_) => {
                            let size = si.size();
                            let v = size.sign_extend(bits);
                            o.str("int", &format!("{}", v));
                        }
                        ty::Uint(_) => {
                            o.str("int", &format!("{}", bits));
                        }
                        ty::Float(fty) => {
                            let s = match fty.bit_width() {
                                32 => format!("{:?}", f32::from_bits(bits as u32)),
                                64 => format!("{:?}", f64::from_bits(bits as u64)),
                                _ => format!("bits:{}", bits),
                            };
                            o.str("float", &s);
                        }
                        _ => {
                            o.str("bits", &format!("{}", bits));
                        }
                    }
                }
                ConstValue::Scalar(mir::interpret::Scalar::Ptr(ptr, _)) => {
                    // reference to a static / const allocation
                    let aid = ptr.provenance.alloc_id();
                    if let Some(ga) = tcx.try_get_global_alloc(aid) {
                        match ga {
                            mir::interpret::GlobalAlloc::Static(sdid) => {
                                let sn = path_of(tcx, sdid);
                                o.str("static", &sn);
                                self.cur_statics.insert(sn);
                            }
                            mir::interpret::GlobalAlloc::Function { instance } => {
                                o.str("fnptr_to", &path_of(tcx, instance.def_id()));
                                self.cur_callees.insert(path_of(tcx, instance.def_id()));
                            }
                            _ => {}
                        }
                    }
                }
                ConstValue::ZeroSized => {
                    o.boolean("zst", true);
                }
                ConstValue::Slice { .. } | ConstValue::Indirect { .. } => {
                    if let Some(bytes) = v.try_get_slice_bytes_for_diagnostics(tcx) {
                        let is_str = matches!(ty.kind(), ty::Ref(_, t, _) if t.is_str());
                        if is_str {
                            o.str("str", &String::from_utf8_lossy(bytes));
                        } else if bytes.len() <= 256 {
                            let items: Vec<String> =
                                bytes.iter().map(|b| format!("{}", b)).collect();
                            o.raw("bytes", &arr(&items));
                        }
                    }
                }
                _ => {}
            }
        }
        o.done()
    }

    fn operand(&mut self, body: &Body<'tcx>, body_did: DefId, op: &Operand<'tcx>) -> String {
        match op {
            Operand::Copy(p) => {
                let mut o = Obj::new();
                o.str("k", "copy");
                o.raw("p", &self.place(body, p));
                o.done()
            }
            Operand::Move(p) => {
                let mut o = Obj::new();
                o.str("k", "move");
                o.raw("p", &self.place(body, p));
                o.done()
            }
            Operand::Constant(c) => self.konst(body_did, c),
            #[allow(unreachable_patterns)]
            other => {
                let mut o = Obj::new();
                o.str("k", "other");
                o.str("dbg", &format!("{:?}", other));
                o.done()
            }
        }
    }

    fn rvalue(&mut self, body: &Body<'tcx>, body_did: DefId, rv: &Rvalue<'tcx>) -> String {
        let tcx = self.tcx;
        let mut o = Obj::new();
        match rv {
            Rvalue::Use(op, ..) => {
                o.str("k", "use");
                o.raw("op", &self.operand(body, body_did, op));
            }
            Rvalue::Ref(_, bk, p) => {
                o.str("k", "ref");
                o.boolean("mut", matches!(bk, mir::BorrowKind::Mut { .. }));
                o.raw("p", &self.place(body, p));
            }
            Rvalue::RawPtr(_, p) => {
                o.str("k", "rawptr");
                o.raw("p", &self.place(body, p));
            }
            Rvalue::CopyForDeref(p) => {
                o.str("k", "use");
                let mut oo = Obj::new();
                oo.str("k", "copy");
                oo.raw("p", &self.place(body, p));
                o.raw("op", &oo.done());
            }
            Rvalue::Cast(kind, op, to) => {
                o.str("k", "cast");
                let ks = match kind {
                    CastKind::IntToInt => "IntToInt".to_string(),
                    CastKind::IntToFloat => "IntToFloat".to_string(),
                    CastKind::FloatToInt => "FloatToInt".to_string(),
                    CastKind::FloatToFloat => "FloatToFloat".to_string(),
                    CastKind::Transmute => "Transmute".to_string(),
                    other => format!("{:?}", other),
                };
                o.str("ck", &ks);
                o.str("from", &ty_s(op.ty(&body.local_decls, tcx)));
                o.str("to", &ty_s(*to));
                o.raw("op", &self.operand(body, body_did, op));
            }
            Rvalue::BinaryOp(bop, ops) => {
                o.str("k", "binop");
                o.str("op", &format!("{:?}", bop));
                o.str("tya", &ty_s(ops.0.ty(&body.local_decls, tcx)));
                o.raw("a", &self.operand(body, body_did, &ops.0));
                o.raw("b", &self.operand(body, body_did, &ops.1));
            }
            Rvalue::UnaryOp(uop, op) => {
                o.str("k", "unop");
                o.str("op", &format!("{:?}", uop));
                o.str("tya", &ty_s(op.ty(&body.local_decls, tcx)));
                o.raw("a", &self.operand(body, body_did, op));
            }
            Rvalue::Discriminant(p) => {
                o.str("k", "discr");
                o.raw("p", &self.place(body, p));
                let pty = p.ty(&body.local_decls, tcx).ty;
                if let ty::Adt(adt, _) = pty.kind() {
                    let n = self.note_adt(*adt);
                    o.str("adt", &n);
                }
            }
            Rvalue::Aggregate(kind, ops) => {
                o.str("k", "agg");
                match &**kind {
                    AggregateKind::Adt(did, vi, _, _, active) => {
                        let adt = tcx.adt_def(*did);
                        let n = self.note_adt(adt);
                        o.str("adt", &n);
                        let v = adt.variant(*vi);
                        o.str("variant", v.name.as_str());
                        let fns: Vec<String> = if let Some(a) = active {
                            vec![js(v.fields[*a].name.as_str())]
                        } else {
                            v.fields.iter().map(|f| js(f.name.as_str())).collect()
                        };
                        o.raw("fnames", &arr(&fns));
                    }
                    AggregateKind::Tuple => {
                        o.str("adt", "(tuple)");
                    }
                    AggregateKind::Array(t) => {
                        o.str("adt", "(array)");
                        o.str("elem", &ty_s(*t));
                    }
                    AggregateKind::Closure(did, _) => {
                        o.str("adt", "(closure)");
                        o.str("closure", &path_of(tcx, *did));
                    }
                    AggregateKind::Coroutine(did, _) | AggregateKind::CoroutineClosure(did, _) => {
                        o.str("adt", "(coroutine)");
                        o.str("closure", &path_of(tcx, *did));
                    }
                    AggregateKind::RawPtr(..) => {
                        o.str("adt", "(rawptr)");
                    }
                }
                let mut fs = Vec::new();
                for op in ops.iter() {
                    fs.push(self.operand(body, body_did, op));
                }
                o.raw("ops", &arr(&fs));
            }
            Rvalue::Repeat(op, _) => {
                o.str("k", "repeat");
                o.raw("op", &self.operand(body, body_did, op));
            }
            Rvalue::ThreadLocalRef(did) => {
                o.str("k", "tlsref");
                o.str("item", &path_of(tcx, *did));
                self.cur_statics.insert(path_of(tcx, *did));
            }
            other => {
                o.str("k", "other");
                o.str("dbg", &format!("{:?}", other));
            }
        }
        o.done()
    }

    fn body(
        &mut self,
        did: DefId,
        body: &Body<'tcx>,
        kind: &str,
        promoted: Option<u32>,
    ) -> (String, Vec<String>) {
        let tcx = self.tcx;
        let mut callees: BTreeSet<String> = BTreeSet::new();
        self.cur_callees.clear();
        self.cur_statics.clear();
        let mut o = Obj::new();
        let base = path_of(tcx, did);
        let name = match promoted {
            Some(p) => format!("{}::{{promoted#{}}}", base, p),
            None => base.clone(),
        };
        o.str("name", &name);
        o.str("kind", kind);
        let (file, line, _, _) = loc(tcx, body.span);
        o.str("file", &file);
        o.num("line", line as i128);
        o.num("argc", body.arg_count as i128);
        if let Some(parent) = tcx.opt_parent(did) {
            if matches!(tcx.def_kind(did), DefKind::Closure | DefKind::InlineConst) {
                o.str("parent", &path_of(tcx, parent));
            }
            // impl info
            let mut owner = did;
            while matches!(tcx.def_kind(owner), DefKind::Closure | DefKind::InlineConst) {
                owner = tcx.parent(owner);
            }
            if matches!(tcx.def_kind(owner), DefKind::AssocFn | DefKind::AssocConst { .. }) {
                let p = tcx.parent(owner);
                if let DefKind::Impl { of_trait } = tcx.def_kind(p) {
                    let self_ty = tcx.type_of(p).instantiate_identity().skip_norm_wip();
                    o.str("impl_self", &ty_s(self_ty));
                    if of_trait {
                        let tr = tcx.impl_trait_ref(p).instantiate_identity().skip_norm_wip();
                        o.str("impl_trait", &path_of(tcx, tr.def_id));
                        o.str("impl_trait_ref", &with_no_trimmed_paths!(format!("{}", tr)));
                    }
                    o.str("item_name", tcx.item_name(owner).as_str());
                } else if let DefKind::Trait = tcx.def_kind(p) {
                    o.str("trait_default", &path_of(tcx, p));
                    o.str("item_name", tcx.item_name(owner).as_str());
                }
            }
            let _ = parent;
        }
        // locals
        let mut names: BTreeMap<u32, String> = BTreeMap::new();
        let mut upvars: Vec<String> = Vec::new();
        for vdi in body.var_debug_info.iter() {
            if let mir::VarDebugInfoContents::Place(p) = &vdi.value {
                if p.projection.is_empty() {
                    names.entry(p.local.as_u32()).or_insert(vdi.name.as_str().to_string());
                } else if p.local.as_u32() == 1 {
                    // closure upvar: _1.N or (*_1).N
                    let mut fo = Obj::new();
                    fo.str("name", vdi.name.as_str());
                    fo.raw("p", &self.place(body, p));
                    upvars.push(fo.done());
                }
            }
        }
        let mut ls = Vec::new();
        for (l, d) in body.local_decls.iter_enumerated() {
            let mut lo = Obj::new();
            lo.str("ty", &ty_s(d.ty));
            if let Some(n) = names.get(&l.as_u32()) {
                lo.str("n", n);
            }
            ls.push(lo.done());
        }
        o.raw("locals", &arr(&ls));
        if !upvars.is_empty() {
            o.raw("upvars", &arr(&upvars));
        }
        let typing_env = TypingEnv::post_analysis(tcx, did);
        let mut bbs = Vec::new();
        for (_bb, data) in body.basic_blocks.iter_enumerated() {
            let mut bo = Obj::new();
            if data.is_cleanup {
                bo.boolean("cleanup", true);
            }
            let mut stmts = Vec::new();
            for st in data.statements.iter() {
                match &st.kind {
                    StatementKind::Assign(b) => {
                        let (p, rv) = &**b;
                        let mut so = Obj::new();
                        so.raw("d", &self.place(body, p));
                        so.raw("rv", &self.rvalue(body, did, rv));
                        let (_, line, _, exp) = loc(tcx, st.source_info.span);
                        so.num("ln", line as i128);
                        if exp {
                            so.boolean("exp", true);
                        }
                        stmts.push(so.done());
                    }
                    StatementKind::SetDiscriminant { place, variant_index } => {
                        let mut so = Obj::new();
                        so.raw("d", &self.place(body, place));
                        let mut ro = Obj::new();
                        ro.str("k", "setdiscr");
                        ro.num("variant", variant_index.as_u32() as i128);
                        so.raw("rv", &ro.done());
                        stmts.push(so.done());
                    }
                    _ => {}
                }
            }
            bo.raw("s", &arr(&stmts));
            let term = data.terminator();
            let mut to = Obj::new();
            let (tfile, tline, tcol, texp) = loc(tcx, term.source_info.span);
            to.num("ln", tline as i128);
            to.num("col", tcol as i128);
            if tfile != file {
                to.str("file", &tfile);
            }
            if texp {
                to.boolean("exp", true);
            }
            let bbn = |b: BasicBlock| b.as_u32() as i128;
            match &term.kind {
                TerminatorKind::Goto { target } => {
                    to.str("k", "goto");
                    to.num("t", bbn(*target));
                }
                TerminatorKind::SwitchInt { discr, targets } => {
                    to.str("k", "switch");
                    to.raw("op", &self.operand(body, did, discr));
                    to.str("ty", &ty_s(discr.ty(&body.local_decls, tcx)));
                    let mut ts = Vec::new();
                    for (v, t) in targets.iter() {
                        ts.push(format!("[{},{}]", js(&format!("{}", v)), bbn(t)));
                    }
                    to.raw("targets", &arr(&ts));
                    to.num("otherwise", bbn(targets.otherwise()));
                }
                TerminatorKind::Return => {
                    to.str("k", "return");
                }
                TerminatorKind::Unreachable => {
                    to.str("k", "unreachable");
                }
                TerminatorKind::UnwindResume | TerminatorKind::UnwindTerminate(_) => {
                    to.str("k", "resume");
                }
                TerminatorKind::Drop { place, target, .. } => {
                    to.str("k", "drop");
                    to.raw("p", &self.place(body, place));
                    to.str("ty", &ty_s(place.ty(&body.local_decls, tcx).ty));
                    to.num("t", bbn(*target));
                }
                TerminatorKind::Assert { cond, expected, msg, target, .. } => {
                    to.str("k", "assert");
                    to.raw("cond", &self.operand(body, did, cond));
                    to.boolean("expected", *expected);
                    let m = format!("{:?}", msg);
                    let short = m.split('(').next().unwrap_or("").to_string();
                    to.str("msg", &short);
                    if let mir::AssertKind::Overflow(op, ..) = &**msg {
                        to.str("ovop", &format!("{:?}", op));
                    }
                    to.num("t", bbn(*target));
                }
                TerminatorKind::Call { func, args, destination, target, fn_span, .. } => {
                    to.str("k", "call");
                    let fty = func.ty(&body.local_decls, tcx);
                    match fty.kind() {
                        ty::FnDef(cdid, cargs) => {
                            to.str("fn", &path_of(tcx, *cdid));
                            to.str(
                                "fn_full",
                                &with_no_trimmed_paths!(tcx.def_path_str_with_args(*cdid, cargs)),
                            );
                            match Instance::try_resolve(tcx, typing_env, *cdid, cargs) {
                                Ok(Some(inst)) => {
                                    let rname = path_of(tcx, inst.def_id());
                                    match inst.def {
                                        ty::InstanceKind::Virtual(..) => {
                                            to.boolean("dyn", true);
                                            if let Some(a0) = args.first() {
                                                to.str(
                                                    "recv",
                                                    &ty_s(a0.node.ty(&body.local_decls, tcx)),
                                                );
                                            }
                                            callees.insert(format!("dyn {}", rname));
                                        }
                                        _ => {
                                            callees.insert(rname.clone());
                                        }
                                    }
                                    to.str("rfn", &rname);
                                    to.str(
                                        "rfn_full",
                                        &with_no_trimmed_paths!(format!("{}", inst)),
                                    );
                                    // blanket impls in core hide the local From impl that really runs
                                    let mut conv: Option<(Ty<'tcx>, Ty<'tcx>)> = None; // (from, to)
                                    if rname == "<T as std::convert::Into<U>>::into" && inst.args.len() >= 2 {
                                        if let (Some(t), Some(u)) = (inst.args[0].as_type(), inst.args[1].as_type()) {
                                            conv = Some((t, u));
                                        }
                                    } else if rname.ends_with("::from_residual") && inst.args.len() == 3 {
                                        // impl<T, E, F: From<E>> FromResidual<Result<Infallible, E>> for Result<T, F>
                                        if let (Some(e), Some(f)) = (inst.args[1].as_type(), inst.args[2].as_type()) {
                                            conv = Some((e, f));
                                        }
                                    }
                                    if let Some((from, to_ty)) = conv {
                                        if from != to_ty {
                                            if let Some(from_trait) = tcx.get_diagnostic_item(rustc_span::sym::From) {
                                                if let Some(from_fn) = tcx.associated_item_def_ids(from_trait).first() {
                                                    let args = tcx.mk_args(&[to_ty.into(), from.into()]);
                                                    if let Ok(Some(ci)) = Instance::try_resolve(tcx, typing_env, *from_fn, args) {
                                                        let cn = path_of(tcx, ci.def_id());
                                                        to.str("conv", &cn);
                                                        callees.insert(cn);
                                                    }
                                                }
                                            }
                                        }
                                    }
                                    to.boolean("rlocal", inst.def_id().is_local());
                                }
                                _ => {
                                    to.boolean("unresolved", true);
                                    callees.insert(format!("? {}", path_of(tcx, *cdid)));
                                }
                            }
                        }
                        _ => {
                            to.str("fnptr", &ty_s(fty));
                            to.raw("fop", &self.operand(body, did, func));
                            callees.insert(format!("ptr {}", ty_s(fty)));
                        }
                    }
                    let mut aa = Vec::new();
                    for a in args.iter() {
                        aa.push(self.operand(body, did, &a.node));
                    }
                    to.raw("args", &arr(&aa));
                    to.raw("dest", &self.place(body, destination));
                    to.str("dty", &ty_s(destination.ty(&body.local_decls, tcx).ty));
                    if let Some(t) = target {
                        to.num("t", bbn(*t));
                    }
                    let (_, fl, _, _) = loc(tcx, *fn_span);
                    to.num("fln", fl as i128);
                }
                TerminatorKind::TailCall { .. } => {
                    to.str("k", "tailcall");
                }
                TerminatorKind::InlineAsm { .. } => {
                    to.str("k", "asm");
                }
                other => {
                    to.str("k", "other");
                    to.str("dbg", &format!("{:?}", other));
                    let succ: Vec<String> =
                        other.successors().map(|b| format!("{}", b.as_u32())).collect();
                    to.raw("succ", &arr(&succ));
                }
            }
            bo.raw("t", &to.done());
            bbs.push(bo.done());
        }
        o.raw("blocks", &arr(&bbs));
        callees.extend(self.cur_callees.iter().cloned());
        for st in self.cur_statics.iter() {
            callees.insert(format!("static {}", st));
        }
        (o.done(), callees.into_iter().collect())
    }
}

struct Facts;

impl Callbacks for Facts {
    fn after_analysis<'tcx>(&mut self, _c: &Compiler, tcx: TyCtxt<'tcx>) -> Compilation {
        let out_dir = match std::env::var("VRL_FACTS_OUT") {
            Ok(d) => d,
            Err(_) => return Compilation::Continue,
        };
        let want = std::env::var("VRL_FACTS_CRATE").unwrap_or_else(|_| "vrl".to_string());
        let crate_name = tcx.crate_name(LOCAL_CRATE).to_string();
        if crate_name != want {
            return Compilation::Continue;
        }
        // only the library target (the bin target of the same package has crate type bin)
        let is_lib = tcx
            .crate_types()
            .iter()
            .any(|t| matches!(t, rustc_session_types::CrateType::Rlib | rustc_session_types::CrateType::Dylib | rustc_session_types::CrateType::ProcMacro))
            || std::env::var("VRL_FACTS_ANY_TYPE").is_ok();
        if !is_lib {
            return Compilation::Continue;
        }
        let nonce = std::env::var("VRL_FACTS_NONCE").unwrap_or_default();
        let mut cx = Cx { tcx, adts_seen: BTreeMap::new(), cur_callees: BTreeSet::new(), cur_statics: BTreeSet::new() };
        let mut bodies_out: Vec<u8> = Vec::new();
        let mut index: Vec<String> = Vec::new();
        let mut n_bodies = 0usize;

        let owners: Vec<LocalDefId> = tcx.hir_body_owners().collect();
        for ldid in owners {
            let did = ldid.to_def_id();
            let dk = tcx.def_kind(did);
            let (kind, body): (&str, &Body<'tcx>) = match dk {
                DefKind::Fn | DefKind::AssocFn => ("fn", tcx.optimized_mir(did)),
                DefKind::Closure => {
                    if tcx.is_coroutine(did) {
                        continue;
                    }
                    ("closure", tcx.optimized_mir(did))
                }
                DefKind::Const { .. } | DefKind::AssocConst { .. } => ("const", tcx.mir_for_ctfe(did)),
                DefKind::Static { .. } => ("static", tcx.mir_for_ctfe(did)),
                DefKind::InlineConst | DefKind::AnonConst => continue,
                _ => continue,
            };
            let mut emit = |cx: &mut Cx<'tcx>, b: &Body<'tcx>, kind: &str, prom: Option<u32>| {
                let (json, callees) = cx.body(did, b, kind, prom);
                let off = bodies_out.len();
                bodies_out.extend_from_slice(json.as_bytes());
                bodies_out.push(b'\n');
                let mut io = Obj::new();
                let base = path_of(tcx, did);
                let name = match prom {
                    Some(p) => format!("{}::{{promoted#{}}}", base, p),
                    None => base,
                };
                io.str("name", &name);
                io.str("kind", kind);
                io.num("off", off as i128);
                io.num("len", json.len() as i128);
                let (file, line, _, _) = loc(tcx, b.span);
                io.str("file", &file);
                io.num("line", line as i128);
                let cs: Vec<String> = callees.iter().map(|c| js(c)).collect();
                io.raw("callees", &arr(&cs));
                index.push(io.done());
                n_bodies += 1;
            };
            emit(&mut cx, body, kind, None);
            let proms = tcx.promoted_mir(did);
            for (pi, pb) in proms.iter_enumerated() {
                emit(&mut cx, pb, "promoted", Some(pi.as_u32()));
            }
        }

        // local ADTs
        for ldid in tcx.hir_crate_items(()).definitions() {
            let did = ldid.to_def_id();
            if matches!(tcx.def_kind(did), DefKind::Struct | DefKind::Enum) {
                let adt = tcx.adt_def(did);
                cx.note_adt(adt);
            }
        }

        // trait impls
        let mut impls: Vec<String> = Vec::new();
        for (trait_did, impl_list) in tcx.all_local_trait_impls(()).iter() {
            let tname = path_of(tcx, *trait_did);
            for impl_ldid in impl_list.iter() {
                let idid = impl_ldid.to_def_id();
                let self_ty = tcx.type_of(idid).instantiate_identity().skip_norm_wip();
                let mut io = Obj::new();
                io.str("trait", &tname);
                io.str("self", &ty_s(self_ty));
                let (file, line, _, _) = loc(tcx, tcx.def_span(idid));
                io.str("file", &file);
                io.num("line", line as i128);
                let mut items = Vec::new();
                for item in tcx.associated_items(idid).in_definition_order() {
                    let mut it = Obj::new();
                    it.str("name", item.name().as_str());
                    it.str("path", &path_of(tcx, item.def_id));
                    items.push(it.done());
                }
                io.raw("items", &arr(&items));
                impls.push(io.done());
            }
        }

        // statics
        let mut statics: Vec<String> = Vec::new();
        for ldid in tcx.hir_crate_items(()).definitions() {
            let did = ldid.to_def_id();
            if let DefKind::Static { .. } = tcx.def_kind(did) {
                let ty = tcx.type_of(did).instantiate_identity().skip_norm_wip();
                let mut so = Obj::new();
                so.str("name", &path_of(tcx, did));
                so.str("ty", &ty_s(ty));
                so.boolean(
                    "freeze",
                    ty.is_freeze(tcx, TypingEnv::fully_monomorphized()),
                );
                so.boolean("thread_local", tcx.is_thread_local_static(did));
                let (file, line, _, _) = loc(tcx, tcx.def_span(did));
                so.str("file", &file);
                so.num("line", line as i128);
                statics.push(so.done());
            }
        }

        let adts: Vec<String> = cx.adts_seen.values().cloned().collect();

        std::fs::create_dir_all(&out_dir).expect("create facts dir");
        let w = |name: &str, data: &[u8]| {
            let p = std::path::Path::new(&out_dir).join(name);
            let tmp = std::path::Path::new(&out_dir).join(format!("{}.tmp", name));
            let mut f = std::fs::File::create(&tmp).expect("create facts file");
            f.write_all(data).expect("write facts");
            f.sync_all().ok();
            std::fs::rename(&tmp, &p).expect("rename facts");
        };
        w("bodies.jsonl", &bodies_out);
        w("index.json", arr(&index).as_bytes());
        w("adts.json", arr(&adts).as_bytes());
        w("impls.json", arr(&impls).as_bytes());
        w("statics.json", arr(&statics).as_bytes());
        let mut mo = Obj::new();
        mo.str("nonce", &nonce);
        mo.str("crate", &crate_name);
        mo.num("bodies", n_bodies as i128);
        mo.num("adts", adts.len() as i128);
        mo.num("impls", impls.len() as i128);
        mo.num("statics", statics.len() as i128);
        mo.str("rustc", &format!("{}", rustc_interface::util::rustc_version_str().unwrap_or("?")));
        w("meta.json", mo.done().as_bytes());
        Compilation::Continue
    }
}

extern crate rustc_session;
use rustc_session::config as rustc_session_types;

fn main() {
    let mut args: Vec<String> = std::env::args().collect();
    // RUSTC_WORKSPACE_WRAPPER: argv[1] is the path of the real rustc
    if args.len() > 1 && (args[1].ends_with("rustc") || args[1].contains("/rustc")) {
        args.remove(1);
    }
    let mut cb = Facts;
    rustc_driver::run_compiler(&args, &mut cb);
}
