"""C34 — unused-expression warnings only flag removable code (the side-effect table)."""
import fmap
import cfgq
from facts import op_local, place_local

CHECKER_CONST = "compiler::unused_expression_checker::SIDE_EFFECT_FUNCTIONS"
EMBEDDER_PROVIDED = {"set_semantic_meaning": "registered by the embedder (Vector), not part of this crate's stdlib; listing it is harmless"}
ARMED = ("TARGET_WRITE", "SECRET_WRITE", "VAR_WRITE")


def table(chk):
    facts = chk.facts
    b = chk.anchor(CHECKER_CONST, "R34a")
    if b is None:
        return None
    vals = []
    for bi, si, s in b.iter_stmts():
        rv = s["rv"]
        if rv["k"] == "agg":
            for op in rv["ops"]:
                if op.get("k") == "const" and "str" in op:
                    vals.append(op["str"])
        elif rv["k"] == "use" and rv["op"].get("k") == "const" and "str" in rv["op"]:
            vals.append(rv["op"]["str"])
    return vals


def run(chk):
    facts = chk.facts
    chk.explanation = (
        "Decides the side-effect table behind the unused-result warning, not the visitor's bookkeeping. R34a: SIDE_EFFECT_FUNCTIONS (read from the "
        "const's MIR) contains every stdlib function whose `pure()` is the constant false. R34b: it contains every closure-less function whose resolve "
        "(P-EFFECT over the resolved call graph, stopping at child-expression evaluation) can write the target, secrets or variables; closure-taking "
        "functions are exempt because the checker never flags calls with a closure — which R34d decides: in AstVisitor::visit_function_call every append_diagnostic is unreachable from the `Some` edge of the test on function_call.closure. R34c: every listed name is a registered function or a frozen embedder-"
        "provided name. LOG/NET/FS atoms are reported unarmed (deleting such a call changes neither event nor success).")
    chk.assumptions += ["effect atoms of third-party callees come from the reviewed name table in fmap.ATOMS",
                        "`dyn`/generic trait calls are expanded to all local impls (CHA) except child-expression evaluation"]
    tbl = table(chk)
    if tbl is None:
        return
    M = fmap.FMap(facts)
    chk.extra["side_effect_table"] = tbl
    rid = "R34a"
    chk.rule(rid, "every function with pure() == false is listed in SIDE_EFFECT_FUNCTIONS", floor=150)
    for f in M.functions.values():
        ident = f["identifier"]
        d = {"function": ident, "pure": f["pure"], "listed": ident in tbl}
        if ident is None or f["pure"] is None:
            chk.instance(rid, d, ok=None)
            chk.fail_closed(rid, "could not read identifier()/pure() of %s" % f["self"])
            continue
        if f["pure"] is False and ident not in tbl:
            chk.instance(rid, d, ok=False)
            chk.violation(rid, f["file"], f["self"], "impure function `%s` not in SIDE_EFFECT_FUNCTIONS" % ident,
                          "`%s` declares pure() == false but the unused-expression checker would report a call to it as removable" % ident, detail=d)
        else:
            chk.instance(rid, d, ok=True)
    rid = "R34b"
    chk.rule(rid, "every closure-less function whose resolve has a TARGET_WRITE/SECRET_WRITE/VAR_WRITE atom is listed", floor=150)
    unarmed = {}
    for f in M.functions.values():
        ident = f["identifier"]
        roots = [r for r in (M.resolve_body(e) for e in f["exprs"]) if r]
        if not roots:
            chk.instance(rid, {"function": ident, "exprs": f["exprs"]}, ok=None)
            chk.fail_closed(rid, "no resolve body found for function %s (%s)" % (ident, f["self"]))
            continue
        eff, seen, ext = fmap.effects(facts, roots)
        armed = {a: eff[a][0] for a in ARMED if a in eff}
        for a in ("LOG", "NET", "FS"):
            if a in eff:
                unarmed.setdefault(a, []).append(ident)
        d = {"function": ident, "closure": f["closure_overridden"], "write_atoms": {a: {"callee": v[0], "via": v[1][-3:]} for a, v in armed.items()},
             "listed": ident in tbl, "bodies_examined": len(seen)}
        if armed and not f["closure_overridden"] and ident not in tbl:
            a, (callee, path) = next(iter(armed.items()))
            chk.instance(rid, d, ok=False)
            chk.violation(rid, f["file"], f["self"], "effectful function `%s` (%s) not in SIDE_EFFECT_FUNCTIONS" % (ident, a),
                          "`%s` can reach %s (%s) from its resolve, yet an unused call to it is reported as removable: deleting the flagged call "
                          "would change the event/variables" % (ident, callee, a), detail=d)
        else:
            chk.instance(rid, d, ok=True)
    chk.extra["unarmed_effect_inventory"] = {k: sorted(v) for k, v in unarmed.items()}
    rid = "R34c"
    chk.rule(rid, "every name in SIDE_EFFECT_FUNCTIONS is a registered function or a frozen embedder-provided name", floor=4)
    for name in tbl:
        d = {"name": name, "registered": name in M.by_ident, "embedder": name in EMBEDDER_PROVIDED}
        if name in M.by_ident or name in EMBEDDER_PROVIDED:
            chk.instance(rid, d, ok=True)
        else:
            chk.instance(rid, d, ok=False)
            chk.violation(rid, "src/compiler/unused_expression_checker.rs", CHECKER_CONST, "unknown name `%s`" % name,
                          "SIDE_EFFECT_FUNCTIONS lists `%s`, which is not a function of this crate (typo => the real function is treated as removable)" % name, detail=d)

    rule_r34d(chk)


VISIT_CALL = "compiler::unused_expression_checker::AstVisitor::<'_>::visit_function_call"


def rule_r34d(chk):
    """the exemption R34b relies on: a call that carries a closure is never reported as an unused result"""
    rid = "R34d"
    chk.rule(rid, "in visit_function_call no append_diagnostic is reachable from the `Some(closure)` edge", floor=2)
    b = chk.anchor(VISIT_CALL, rid)
    if b is None:
        return
    sw = []
    for bi, place, adt, tg, other in cfgq.discr_switches_on(chk.facts, b, lambda p, adt: adt.endswith("option::Option")):
        root = cfgq.ref_root(b, place_local(place))
        if root and root[0] == 2 and "closure" in root[1]:
            sw.append((bi, tg, other))
    if len(sw) != 1:
        chk.fail_closed(rid, "expected exactly one test on function_call.closure in visit_function_call, found %d" % len(sw))
        return
    bi, tg, other = sw[0]
    some = tg.get("Some", other)
    chk.instance(rid, {"switch_block": bi, "some_target": some, "line": b.loc(b.term(bi))}, ok=True)
    region = b.reachable_from_edges([some])
    diag = [(bb, t) for bb, t in b.calls() if b.callee(t).endswith("VisitorState::append_diagnostic")]
    if not diag:
        chk.fail_closed(rid, "visit_function_call no longer calls append_diagnostic directly: the unused-result report moved; re-anchor R34d")
    for n, (bb, t) in enumerate(diag):
        d = {"block": bb, "line": b.loc(t), "reachable_with_closure": bb in region}
        if bb in region:
            chk.instance(rid, d, ok=False)
            chk.violation(rid, b.file, VISIT_CALL, "append_diagnostic#%d on the closure path" % n,
                          "an `unused result` diagnostic can be emitted for a call that carries a closure (%s): closures write through to outer variables, "
                          "so such a call is not removable, and R34b's closure exemption no longer holds" % b.loc(t), detail=d)
        else:
            chk.instance(rid, d, ok=True)
