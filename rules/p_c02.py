"""C02 — accepted programs without `!`/`abort` never fail (intrinsic error sources of always-infallible functions; flag pairing)."""
import re
from facts import op_local, op_place, flow_sources
from varflow import VarFlow, MOVED
import fmap
import cfgq

SETTER = re.compile(r"compiler::type_def::TypeDef::(fallible|maybe_fallible|fallible_unless|always_fails|with_fallibility)$")
KIND_TO_VARIANT = {"BYTES": "Bytes", "INTEGER": "Integer", "FLOAT": "Float", "BOOLEAN": "Boolean", "OBJECT": "Object", "ARRAY": "Array",
                   "TIMESTAMP": "Timestamp", "REGEX": "Regex", "NULL": "Null"}
COMPILE_ABORT = "compiler::compiler::Compiler::<'a>::compile_abort"
COMPILE_FNCALL = "compiler::compiler::Compiler::<'a>::compile_function_call"
ABORT_NEW = "compiler::expression::abort::Abort::new"


def always_infallible(facts, M, f):
    for e in f["exprs"]:
        for m in ("type_def", "type_info"):
            tb = M.method_body(e, m)
            if tb:
                seen, ext, par = facts.reach([tb], stop=lambda c: fmap.is_child_eval(c) or (c.endswith("::type_info") and "Expression" in c))
                if any(SETTER.search(c) for c in list(seen) + list(ext)):
                    return False
    return True


def declared_variants(facts, f):
    out = set()
    for p in fmap.parameters_of(facts, f) or []:
        k = p.get("kind")
        if k is None:
            return None
        for name, bit in fmap.KIND_BITS.items():
            if k & bit and name in KIND_TO_VARIANT:
                out.add(KIND_TO_VARIANT[name])
    return out


def run(chk):
    facts = chk.facts
    chk.explanation = (
        "Decides two clauses, not the compiler's whole fallibility calculus. R02a: a stdlib function whose type_def can never reach a fallibility setter "
        "(always typed infallible; 91 of 203 today) constructs no message error (String/&str -> ExpressionError) in resolve-reachable stdlib code, unless "
        "P-VAR shows the error sits on a match arm that is unreachable for arguments inside the declared parameter kinds. Coercion errors "
        "(ValueError -> ExpressionError) are not counted: the call builder guarantees argument kinds for an infallible call. R02c: Compiler.abortable is set "
        "before every Abort::new, Compiler.fallible is set on the abort_on_error edge of compile_function_call, and ProgramInfo copies both. R02d (operator "
        "fallibility table): Op::type_info is evaluated by abstract interpretation of its MIR (P-ABS, rules/tinfo.py: operand type definitions as "
        "(kind set, fallible) pairs, summaries for the TypeDef/Kind methods) for every arithmetic/comparison/`&&` opcode and every pair of operand kinds "
        "from a 16-element family (9 exact kinds + unions); whenever the result is infallible, no (self variant, rhs variant) pair inside the operand kinds "
        "may reach a type-mismatch or zero-division ValueError in the matching VrlValueArithmetic method (P-VAR over the method's MIR, coercion calls "
        "included). R02g (coercions narrower than the declared parameter kind): when resolve (or the stdlib helper an argument is handed to) applies a "
        "VrlValueConvert::try_* coercion to an argument in a P-VAR state that still admits a variant the parameter declares but the coercion rejects, "
        "the function's type_def — evaluated abstractly (P-ABS) with that argument typed exactly that kind — must be fallible. R02h (per-argument-type refinement of R02a): for a function whose type_def depends on its arguments, whenever the type_def evaluated with one "
        "argument typed exactly X is infallible, no message-error construction (here or in a stdlib helper reached from here) is reachable in a P-VAR state "
        "where that argument is an X. R02i (literal ranges): where resolve casts a signed integer argument to an unsigned type and only bounds it afterwards (the cast sites C05 R05a "
        "discharges as `bounded after the cast`: a negative argument becomes huge and is *rejected with an error*), the function's type_def evaluated with the "
        "literal -1 for that argument must be fallible. Undecided: pending_fallibilities bookkeeping (seeding agents found `{ to_int(.x); 6 } / 2` accepted), the NaN exception the source "
        "documents (float results that become NaN), operators applied to constants (resolve_constant is abstracted as None), `|` (Op::new admits only objects).")
    M = fmap.FMap(facts)
    rid = "R02a"
    chk.rule(rid, "always-infallible functions have no reachable message-error construction in resolve", floor=80)
    for f in M.functions.values():
        if not always_infallible(facts, M, f):
            continue
        roots = [r for r in (M.resolve_body(e) for e in f["exprs"]) if r]
        seen, ext, par = facts.reach(roots, stop=lambda c: fmap.is_child_eval(c))
        dv = declared_variants(facts, f)
        sites = []
        for n in sorted(seen):
            if not (n.startswith("stdlib::") or n.startswith("<stdlib::")):
                continue
            b = facts.body(n)
            cand = [(bb, t) for bb, t in b.calls() if "ExpressionError" in (t.get("conv") or "") and
                    ("From<&str>" in t["conv"] or "From<std::string::String>" in t["conv"])]
            if not cand:
                continue
            # P-VAR: variants of Value-typed parameters at each site
            vparams = [i for i in range(1, b.argc + 1) if b.local_ty(i).replace("&", "").strip() == "value::value::Value"]
            vf = VarFlow(facts, b, extra_locals=vparams)
            st_at = {}

            def on_term(bb, t, st):
                if any(bb == c[0] for c in cand):
                    st_at.setdefault(bb, []).append(dict(st))
            vf.run(on_term=on_term)
            for bb, t in cand:
                dead = False
                why = None
                if dv is not None and vparams:
                    sts = st_at.get(bb, [])
                    if sts:
                        dead = True
                        for st in sts:
                            hit = False
                            for vp in vparams:
                                for key in ("_%d" % vp, "(*_%d)" % vp):
                                    v = st.get(key)
                                    vs = set(v) - {MOVED} if v is not None else set()
                                    if vs and not (vs & dv):
                                        hit = True
                            dead = dead and hit
                        if dead:
                            why = "match arm unreachable for arguments within the declared kinds %s" % sorted(dv)
                sites.append((n, b, t, dead, why))
        live = [s for s in sites if not s[3]]
        d = {"function": f["identifier"], "message_error_sites": ["%s:%s" % (s[1].file, s[2]["ln"]) for s in sites],
             "discharged": [s[4] for s in sites if s[3]][:2]}
        chk.instance(rid, d, ok=not live)
        for n, b, t, dead, why in live:
            chk.violation(rid, b.file, n, "`%s`: message error at line-independent site in %s" % (f["identifier"], n.rsplit("::", 1)[-1]),
                          "`%s` is always typed infallible (its type_def never marks fallibility) but %s can return a message error at %s:%s: an "
                          "accepted program without `!` fails at runtime" % (f["identifier"], n, b.file, t["ln"]),
                          detail={"function": f["identifier"], "site": "%s:%s" % (b.file, t["ln"])}, loc="%s:%s" % (b.file, t["ln"]))

    rid = "R02c"
    chk.rule(rid, "abortable/fallible flags are set where their cause is compiled and copied into ProgramInfo", floor=3)
    b = chk.anchor(COMPILE_ABORT, rid)
    if b is not None:
        stores = [bi for bi, si, s in b.iter_stmts() if s["rv"]["k"] == "use" and s["rv"]["op"].get("bool") is True
                  and "abortable" in [e.get("f") for e in s["d"].get("p", []) if isinstance(e, dict)]]
        fam = facts.family(COMPILE_ABORT)
        builds = [n for n in fam if ABORT_NEW in facts.callees(n)]
        # the closure that calls Abort::new is created after the store
        ok = bool(stores) and bool(builds)
        if ok:
            for bi, si, s in b.iter_stmts():
                if s["rv"]["k"] == "agg" and s["rv"].get("closure") in builds:
                    ok = ok and any(b.dominates(sb, bi) for sb in stores)
            for bb, t in b.calls():
                if b.callee(t) == ABORT_NEW:
                    ok = ok and any(b.dominates(sb, bb) for sb in stores)
        d = {"fn": COMPILE_ABORT, "abortable_stores": len(stores), "Abort_new_in": builds}
        chk.instance(rid, d, ok=ok)
        if not ok:
            chk.violation(rid, b.file, COMPILE_ABORT, "abortable not set before Abort::new",
                          "an `abort` expression can be compiled without ProgramInfo.abortable becoming true", detail=d)
        callers = sorted({c.split("::{closure")[0] for c in facts.callers(ABORT_NEW)})
        d = {"Abort::new callers": callers}
        ok = callers == [COMPILE_ABORT]
        chk.instance(rid, d, ok=ok)
        if not ok:
            chk.violation(rid, b.file, callers[-1] if callers else COMPILE_ABORT, "Abort constructed elsewhere",
                          "Abort::new is called outside compile_abort, bypassing the abortable flag", detail=d)
    b = chk.anchor(COMPILE_FNCALL, rid)
    if b is not None:
        stores = [bi for bi, si, s in b.iter_stmts() if s["rv"]["k"] == "use" and s["rv"]["op"].get("bool") is True
                  and "fallible" in [e.get("f") for e in s["d"].get("p", []) if isinstance(e, dict)]]
        ok = False
        guard_local = None
        for sb in stores:
            for bi, sw in b.iter_terms("switch"):
                if sw.get("ty") == "bool" and b.dominates(bi, sb) and bi != sb:
                    l = op_local(sw["op"])
                    names = {b.local_name(x) for x in cfgq.ref_chain(b, l)} if l is not None else set()
                    if "abort_on_error" in names:
                        true_bb = sw["otherwise"]
                        if sb in b.reachable_from_edges([true_bb], avoid=[tg for _, tg in sw["targets"]]):
                            ok = True
                            guard_local = l
        d = {"fn": COMPILE_FNCALL, "fallible_stores": len(stores), "guarded_by_abort_on_error": ok}
        chk.instance(rid, d, ok=ok)
        if not ok:
            chk.violation(rid, b.file, COMPILE_FNCALL, "fallible flag not tied to abort_on_error",
                          "a `f!(..)` call can be compiled without ProgramInfo.fallible becoming true", detail=d)

    rule_r02d(chk)
    rule_r02e(chk)
    rule_r02g(chk, M)
    rule_r02h(chk, M)
    rule_r02i(chk, M)
    from p_c01 import rule_r01g
    rule_r01g(chk)          # shared with C01: a branch compiled on the other branch's variable types yields infallible-typed calls that fail


OP_TYPE_INFO = "<compiler::expression::op::Op as compiler::expression::Expression>::type_info"
OPC_METHOD = {"Add": "try_add", "Sub": "try_sub", "Mul": "try_mul", "Div": "try_div", "Gt": "try_gt", "Ge": "try_ge", "Lt": "try_lt", "Le": "try_le",
              "And": "try_and"}
KIND_OF = {"Bytes": "bytes", "Regex": "regex", "Integer": "integer", "Float": "float", "Boolean": "boolean", "Timestamp": "timestamp",
           "Object": "object", "Array": "array", "Null": "null"}
VAR_OF = {v: k for k, v in KIND_OF.items()}


def kind_family():
    singles = [frozenset([k]) for k in KIND_OF.values()]
    unions = [frozenset(x) for x in (("bytes", "null"), ("integer", "float"), ("integer", "null"), ("float", "null"), ("boolean", "null"),
                                      ("bytes", "integer"), tuple(KIND_OF.values()))]
    return singles + unions


def rule_r02d(chk):
    import arith
    import tinfo
    facts = chk.facts
    rid = "R02d"
    chk.rule(rid, "Op::type_info infallible => the operator's method cannot return a type/zero error for any variant pair inside the operand kinds", floor=9)
    if not facts.has(OP_TYPE_INFO):
        chk.fail_closed(rid, "anchor not found: %s" % OP_TYPE_INFO)
        return
    fam = kind_family()
    for opc, mname in OPC_METHOD.items():
        if not facts.has(arith.method(mname)):
            chk.fail_closed(rid, "anchor not found: %s" % arith.method(mname))
            continue
        errs, sites = arith.err_pairs(facts, mname)
        if not sites:
            chk.fail_closed(rid, "%s constructs no ValueError the rule recognises: the run-time side of the table could not be read" % mname)
            continue
        n_eval = n_inf = 0
        bad = []
        undecided = None
        for kl in fam:
            for kr in fam:
                selfv = tinfo.Enum("compiler::expression::op::Op", None, {"lhs": tinfo.boxed(tinfo.Expr("lhs")), "rhs": tinfo.boxed(tinfo.Expr("rhs")),
                                                                           "opcode": tinfo.Enum("parser::ast::Opcode", opc)})
                try:
                    td, it = tinfo.evaluate_type_info(facts, OP_TYPE_INFO, selfv, {"lhs": tinfo.TD(kl), "rhs": tinfo.TD(kr)})
                except tinfo.Undecided as e:
                    undecided = str(e)
                    break
                n_eval += 1
                if td.fallible:
                    continue
                n_inf += 1
                for a in sorted(kl):
                    for c in sorted(kr):
                        if opc == "And" and a == "null":
                            continue       # `null && x` short-circuits before try_and (decided by C09 R09a)
                        if (VAR_OF[a], VAR_OF[c]) in errs:
                            bad.append((len(kl) + len(kr), sorted(kl), sorted(kr), a, c))
            if undecided:
                break
        d = {"opcode": opc, "method": mname, "configurations_evaluated": n_eval, "typed_infallible": n_inf,
             "runtime_ok_pairs": sorted("%s,%s" % (a, c) for a in arith.VARIANTS for c in arith.VARIANTS if (a, c) not in errs),
             "mismatches": len(bad)}
        if undecided:
            chk.instance(rid, d, ok=None)
            chk.fail_closed(rid, "Op::type_info could not be evaluated abstractly for `%s`: %s" % (opc, undecided))
            continue
        chk.instance(rid, d, ok=not bad)
        if bad:
            bad.sort()
            _, kl, kr, a, c = bad[0]
            d["first"] = {"lhs_kind": kl, "rhs_kind": kr, "failing_pair": [a, c]}
            chk.violation(rid, "src/compiler/expression/op.rs", OP_TYPE_INFO, "opcode %s typed infallible for (%s, %s)" % (opc, "|".join(kl), "|".join(kr)),
                          "`%s` with operand kinds (%s, %s) is typed infallible, but %s returns an error for (%s, %s): a program accepted without `!` "
                          "fails at run time (%d operand-kind configurations affected)" % (
                              {"Add": "+", "Sub": "-", "Mul": "*", "Div": "/", "Gt": ">", "Ge": ">=", "Lt": "<", "Le": "<=", "And": "&&"}[opc],
                              "|".join(kl), "|".join(kr), mname, a, c, len(bad)), detail=d)


def rule_r02e(chk):
    """an operand that is always evaluated passes its fallibility on to the operator's type"""
    import tinfo
    facts = chk.facts
    rid = "R02e"
    chk.rule(rid, "type_info of Op / Not / Group / Query: a fallible operand that is always evaluated makes the expression fallible (also with a constant divisor)", floor=17)
    if not facts.has(OP_TYPE_INFO):
        chk.fail_closed(rid, "anchor not found: %s" % OP_TYPE_INFO)
        return
    always_lhs = ["Add", "Sub", "Mul", "Div", "Gt", "Ge", "Lt", "Le", "Eq", "Ne", "And", "Or", "Merge"]
    always_rhs = {"Add", "Sub", "Mul", "Div", "Gt", "Ge", "Lt", "Le", "Eq", "Ne", "Merge"}
    sym = {"Add": "+", "Sub": "-", "Mul": "*", "Div": "/", "Gt": ">", "Ge": ">=", "Lt": "<", "Le": "<=", "And": "&&", "Or": "||", "Eq": "==", "Ne": "!=", "Merge": "|"}
    two = tinfo.Enum("std::option::Option", "Some", {"0": tinfo.Enum("value::value::Value", "Integer", {"0": 2})})
    fam = kind_family()
    for opc in always_lhs:
        bad = []
        n = 0
        undecided = None
        for kl in fam:
            for kr in fam:
                for side in ("lhs", "rhs"):
                    if side == "rhs" and opc not in always_rhs:
                        continue
                    const_opts = [None]
                    if opc == "Div" and side == "lhs" and kr == frozenset(["integer"]):
                        const_opts.append({"rhs": two})
                    for consts in const_opts:
                        selfv = tinfo.Enum("compiler::expression::op::Op", None, {"lhs": tinfo.boxed(tinfo.Expr("lhs")), "rhs": tinfo.boxed(tinfo.Expr("rhs")),
                                                                                   "opcode": tinfo.Enum("parser::ast::Opcode", opc)})
                        try:
                            td, it = tinfo.evaluate_type_info(facts, OP_TYPE_INFO, selfv,
                                                              {"lhs": tinfo.TD(kl, side == "lhs"), "rhs": tinfo.TD(kr, side == "rhs")}, consts)
                        except tinfo.Undecided as e:
                            undecided = str(e)
                            break
                        n += 1
                        if not td.fallible:
                            bad.append((len(kl) + len(kr), sorted(kl), sorted(kr), side, bool(consts)))
                    if undecided:
                        break
                if undecided:
                    break
            if undecided:
                break
        d = {"opcode": opc, "configurations_evaluated": n, "fallibility_dropped": len(bad)}
        if undecided:
            chk.instance(rid, d, ok=None)
            chk.fail_closed(rid, "Op::type_info could not be evaluated abstractly for `%s`: %s" % (opc, undecided))
            continue
        chk.instance(rid, d, ok=not bad)
        if bad:
            bad.sort()
            _, kl, kr, side, withc = bad[0]
            d["first"] = {"lhs_kind": kl, "rhs_kind": kr, "fallible_operand": side, "constant_divisor": withc}
            chk.violation(rid, "src/compiler/expression/op.rs", OP_TYPE_INFO, "opcode %s drops the fallibility of its %s operand" % (opc, side),
                          "`a %s b` with a fallible %s operand of kind %s%s is typed infallible although that operand is always evaluated: its error is "
                          "neither handled nor reported (e.g. `to_int(.x) / 2` compiles without `!` and fails at run time); %d operand configurations affected"
                          % (sym[opc], "left" if side == "lhs" else "right", "|".join(kl if side == "lhs" else kr),
                             " and a non-zero literal divisor" if withc else "", len(bad)), detail=d)
    # single-operand expressions: the operand is always evaluated, so its fallibility is the expression's
    Q = "compiler::expression::query::Query"
    cases = [("Not", "compiler::expression::not::Not", lambda: tinfo.Enum("compiler::expression::not::Not", None, {"inner": tinfo.boxed(tinfo.Expr("x"))})),
             ("Group", "compiler::expression::group::Group", lambda: tinfo.Enum("compiler::expression::group::Group", None, {"inner": tinfo.boxed(tinfo.Expr("x"))})),
             ("Query over a function call", Q, lambda: tinfo.Enum(Q, None, {"target": tinfo.Enum(Q.replace("Query", "Target"), "FunctionCall", {"0": tinfo.Expr("x")}), "path": tinfo.UNK})),
             ("Query over a container", Q, lambda: tinfo.Enum(Q, None, {"target": tinfo.Enum(Q.replace("Query", "Target"), "Container", {"0": tinfo.Expr("x")}), "path": tinfo.UNK}))]
    for label, ty, mk in cases:
        name = "<%s as compiler::expression::Expression>::type_info" % ty
        d = {"expression": label}
        if not facts.has(name):
            chk.instance(rid, d, ok=None)
            chk.fail_closed(rid, "anchor not found: %s" % name)
            continue
        try:
            td, it = tinfo.evaluate_type_info(facts, name, mk(), {"x": tinfo.TD({"boolean"} if label == "Not" else {"object"}, True)})
        except tinfo.Undecided as e:
            chk.instance(rid, d, ok=None)
            chk.fail_closed(rid, "%s::type_info could not be evaluated abstractly: %s" % (label, e))
            continue
        d["result"] = repr(td)
        chk.instance(rid, d, ok=td.fallible)
        if not td.fallible:
            chk.violation(rid, facts.body(name).file, name, "%s drops the fallibility of its operand" % label,
                          "%s: the operand is always evaluated and fallible, but the expression is typed infallible (its error is neither handled nor "
                          "reported, e.g. `parse_json(raw).status` without `!`)" % label, detail=d)


COERCE_ACCEPTS = {"try_bytes": {"Bytes"}, "try_bytes_utf8_lossy": {"Bytes"}, "try_timestamp": {"Timestamp"}, "try_integer": {"Integer"},
                  "try_float": {"Float"}, "try_boolean": {"Boolean"}, "try_object": {"Object"}, "try_array": {"Array"}, "try_regex": {"Regex"},
                  "try_null": {"Null"}, "try_into_f64": {"Integer", "Float"}, "try_into_i64": {"Integer", "Float"}}


def rule_r02g(chk, M):
    import tinfo
    import stdlibrules as sr
    from varflow import VarFlow, MOVED
    facts = chk.facts
    rid = "R02g"
    chk.rule(rid, "a coercion that rejects a variant the parameter declares is matched by a fallible type_def for that argument type", floor=100)
    bitname = {"BYTES": "bytes", "INTEGER": "integer", "FLOAT": "float", "BOOLEAN": "boolean", "OBJECT": "object", "ARRAY": "array",
               "TIMESTAMP": "timestamp", "REGEX": "regex", "NULL": "null"}

    def rejected_variants(name, local, declared):
        """[(variant, line, coercion)] for coercions of the Value in `local` that can see a declared variant they do not accept"""
        b = facts.body(name)
        al = sr.value_aliases(b, [local])
        vals = [x for x in al if b.local_ty(x).endswith("value::value::Value")]
        vf = VarFlow(facts, b, extra_locals=sorted(vals))
        out = []

        def on_term(bb, t, st):
            if t["k"] != "call" or not t["args"]:
                return
            m = re.search(r"VrlValueConvert>::(try_\w+)$", b.callee(t))
            if not m or m.group(1) not in COERCE_ACCEPTS or op_local(t["args"][0]) not in al:
                return
            cur = None
            for x in sorted(al):
                for k in ("_%d" % x, "(*_%d)" % x):
                    v = st.get(k)
                    if v is not None:
                        vs = set(v) - {MOVED}
                        if vs and vs <= set(VAR_OF.values()):
                            cur = vs if cur is None else (cur & vs)
            cur = cur if cur is not None else set(VAR_OF.values())
            for v in sorted((cur & declared) - COERCE_ACCEPTS[m.group(1)]):
                out.append((v, t["ln"], m.group(1), name))
        vf.run(on_term=on_term)
        return out

    n_args = 0
    for f in M.functions.values():
        ident = f["identifier"]
        params = {p["keyword"]: p for p in (fmap.parameters_of(facts, f) or []) if p.get("keyword")}
        for e in f["exprs"]:
            tname = M.method_body(e, "type_def")
            adt = facts.adts.get(e)
            rn = M.resolve_body(e)
            if not tname or not adt or not rn:
                continue
            rb = facts.body(rn)
            v = adt["variants"][0]
            fields, kinds_of = {}, {}
            for fld, ty in zip(v["fields"], v["ftys"]):
                if re.match(r"^std::boxed::Box<\(?dyn compiler::expression::Expression", ty):
                    fields[fld] = tinfo.boxed(tinfo.Expr(fld))
                elif ty.startswith("std::option::Option<std::boxed::Box<"):
                    fields[fld] = tinfo.Enum("std::option::Option", "Some", {"0": tinfo.boxed(tinfo.Expr(fld))})
                else:
                    fields[fld] = tinfo.UNK
                p = params.get(fld)
                kinds_of[fld] = {n for b_, n in bitname.items() if p and p.get("kind") and p["kind"] & fmap.KIND_BITS[b_]} or set(tinfo.KINDS)
            for fld, ty in zip(v["fields"], v["ftys"]):
                if not re.match(r"^std::boxed::Box<\(?dyn compiler::expression::Expression", ty) or fld not in params or not params[fld].get("kind"):
                    continue
                starts = sr.argument_value_locals(facts, rb, fld)
                if len(starts) != 1:
                    continue
                declared = {VAR_OF[k] for k in kinds_of[fld] if k in VAR_OF}
                rej = rejected_variants(rn, starts[0], declared)
                al = sr.value_aliases(rb, starts)
                for bb, t in rb.calls():
                    cal = rb.callee(t)
                    pos = [i for i, a in enumerate(t["args"]) if op_local(a) in al]
                    if pos and facts.has(cal) and (cal.startswith("stdlib::") or cal.startswith("<stdlib::")) and "::{closure" not in cal:
                        cb = facts.body(cal)
                        if pos[0] + 1 <= cb.argc:
                            rej += rejected_variants(cal, pos[0] + 1, declared)
                n_args += 1
                bad = []
                for var, ln, co, where in rej:
                    exprs = {k2: tinfo.TD(set(v2)) for k2, v2 in kinds_of.items()}
                    exprs[fld] = tinfo.TD({KIND_OF[var]})
                    it = tinfo.Interp(facts, exprs)
                    try:
                        res = it.call_body(tname, [tinfo.Ref(tinfo.Enum(e, None, dict(fields))), tinfo.Ref(tinfo.ST())])
                    except tinfo.Undecided:
                        continue
                    if isinstance(res, tinfo.TD) and not res.fallible:
                        bad.append((var, co, where, ln))
                d = {"function": ident, "argument": fld, "declared": sorted(declared), "rejecting_coercions": sorted(set((x[0], x[2]) for x in rej))[:6],
                     "typed_infallible_for": sorted(set(x[0] for x in bad))}
                chk.instance(rid, d, ok=not bad)
                for var, co, where, ln in sorted(set(bad)):
                    wb = facts.body(where)
                    chk.violation(rid, wb.file, where, "`%s`: %s rejects a %s `%s`" % (ident, co, var.lower(), fld),
                                  "`%s` declares parameter `%s` as accepting %s, and is typed infallible for a %s argument, but %s (%s:%s) returns an error for "
                                  "it: a call accepted without `!` fails at run time" % (ident, fld, "|".join(sorted(k for k in kinds_of[fld])), var.lower(), co,
                                                                                       wb.file, ln), detail=d, loc="%s:%s" % (wb.file, ln))
    chk.extra["R02g_arguments_examined"] = n_args


def rule_r02h(chk, M):
    import tinfo
    import stdlibrules as sr
    facts = chk.facts
    rid = "R02h"
    chk.rule(rid, "type_def infallible for an argument of kind X => no message error reachable while that argument is an X", floor=60)
    bitname = {"BYTES": "bytes", "INTEGER": "integer", "FLOAT": "float", "BOOLEAN": "boolean", "OBJECT": "object", "ARRAY": "array",
               "TIMESTAMP": "timestamp", "REGEX": "regex", "NULL": "null"}
    is_msg = lambda t: "ExpressionError" in (t.get("conv") or "") and ("From<&str>" in t["conv"] or "From<std::string::String>" in t["conv"])
    # stdlib bodies that can construct a message error themselves or through stdlib helpers
    direct = set()
    for i in facts.index:
        n = i["name"]
        if n.startswith("stdlib::") or n.startswith("<stdlib::"):
            b = facts.body(n)
            if any(is_msg(t) for bb, t in b.calls()):
                direct.add(n)
    memo = {}

    def can_err(n):
        if n in memo:
            return memo[n]
        memo[n] = False
        seen, ext, par = facts.reach([n], stop=lambda c: fmap.is_child_eval(c) or not (c.startswith("stdlib::") or c.startswith("<stdlib::")), cha=False)
        memo[n] = bool(set(seen) & direct)
        return memo[n]

    def err_states(name, local):
        """[(variants of the value in `local` (or None), line)] at every message-error site / call into an error-capable stdlib helper"""
        b = facts.body(name)
        al = sr.value_aliases(b, [local])
        vals = sorted(x for x in al if b.local_ty(x).endswith("value::value::Value"))
        vf = VarFlow(facts, b, extra_locals=vals)
        out = []

        def on_term(bb, t, st):
            if t["k"] != "call":
                return
            cal = b.callee(t)
            hot = is_msg(t) or (facts.has(cal) and cal != name and (cal.startswith("stdlib::") or cal.startswith("<stdlib::")) and can_err(cal)
                                and not any(op_local(a) in al for a in t["args"]))
            if not hot:
                return
            cur = None
            for x in sorted(al):
                for k in ("_%d" % x, "(*_%d)" % x):
                    v = st.get(k)
                    if v is not None:
                        vs = set(v) - {MOVED}
                        if vs and vs <= set(VAR_OF.values()):
                            cur = vs if cur is None else (cur & vs)
            out.append((cur, t["ln"]))
        vf.run(on_term=on_term)
        return out

    n_triples = 0
    for f in M.functions.values():
        if always_infallible(facts, M, f):
            continue      # R02a
        ident = f["identifier"]
        params = {p["keyword"]: p for p in (fmap.parameters_of(facts, f) or []) if p.get("keyword")}
        for e in f["exprs"]:
            tname = M.method_body(e, "type_def")
            adt = facts.adts.get(e)
            rn = M.resolve_body(e)
            if not tname or not adt or not rn:
                continue
            rb = facts.body(rn)
            v = adt["variants"][0]
            fields, kinds_of = {}, {}
            for fld, ty in zip(v["fields"], v["ftys"]):
                if re.match(r"^std::boxed::Box<\(?dyn compiler::expression::Expression", ty):
                    fields[fld] = tinfo.boxed(tinfo.Expr(fld))
                elif ty.startswith("std::option::Option<std::boxed::Box<"):
                    fields[fld] = tinfo.Enum("std::option::Option", "Some", {"0": tinfo.boxed(tinfo.Expr(fld))})
                else:
                    fields[fld] = tinfo.UNK
                p = params.get(fld)
                kinds_of[fld] = {n for b_, n in bitname.items() if p and p.get("kind") and p["kind"] & fmap.KIND_BITS[b_]} or set(tinfo.KINDS)
            for fld, ty in zip(v["fields"], v["ftys"]):
                if not re.match(r"^std::boxed::Box<\(?dyn compiler::expression::Expression", ty) or fld not in params or not params[fld].get("kind"):
                    continue
                starts = sr.argument_value_locals(facts, rb, fld)
                if len(starts) != 1:
                    continue
                # where the argument is matched: a stdlib helper it is handed to, else resolve itself
                al = sr.value_aliases(rb, starts)
                sites = None
                where = None
                for bb, t in rb.calls():
                    cal = rb.callee(t)
                    pos = [i for i, a in enumerate(t["args"]) if op_local(a) in al]
                    if pos and facts.has(cal) and (cal.startswith("stdlib::") or cal.startswith("<stdlib::")) and "::{closure" not in cal:
                        cb = facts.body(cal)
                        if pos[0] + 1 <= cb.argc:
                            sites, where = err_states(cal, pos[0] + 1), cal
                            break
                if sites is None:
                    sites, where = err_states(rn, starts[0]), rn
                bad = []
                for kname in sorted(kinds_of[fld]):
                    if kname not in VAR_OF:
                        continue
                    exprs = {k2: tinfo.TD(set(v2)) for k2, v2 in kinds_of.items()}
                    exprs[fld] = tinfo.TD({kname})
                    it = tinfo.Interp(facts, exprs)
                    try:
                        res = it.call_body(tname, [tinfo.Ref(tinfo.Enum(e, None, dict(fields))), tinfo.Ref(tinfo.ST())])
                    except tinfo.Undecided:
                        continue
                    if not isinstance(res, tinfo.TD) or res.fallible:
                        continue
                    n_triples += 1
                    for cur, ln in sites:
                        # only sites whose state pins the argument to this variant are decided (an unconstrained site is R02a's business)
                        if cur is not None and VAR_OF[kname] in cur and len(cur) <= 3:
                            bad.append((kname, ln))
                d = {"function": ident, "argument": fld, "matched_in": where, "error_sites": len(sites),
                     "infallible_but_error_reachable_for": sorted(set(x[0] for x in bad))}
                chk.instance(rid, d, ok=not bad)
                for kname, ln in sorted(set(bad)):
                    wb = facts.body(where)
                    chk.violation(rid, wb.file, where, "`%s` typed infallible for a %s `%s` but can return a message error" % (ident, kname, fld),
                                  "`%s`: type_def evaluated with `%s` typed %s is infallible, yet with a %s argument %s can return a message error "
                                  "(%s:%s): a call accepted without `!` fails at run time" % (ident, fld, kname, kname, where, wb.file, ln), detail=d,
                                  loc="%s:%s" % (wb.file, ln))
    chk.extra["R02h_infallible_argument_types_examined"] = n_triples


def rule_r02i(chk, M):
    """a negative literal that resolve rejects after an unsigned cast must not be typed infallible"""
    import tinfo
    import stdlibrules as sr
    facts = chk.facts
    rid = "R02i"
    chk.rule(rid, "integer arguments that are cast to unsigned and bounded afterwards: type_def with the literal -1 is fallible", floor=2)
    minus_one = tinfo.Enum("std::option::Option", "Some", {"0": tinfo.Enum("value::value::Value", "Integer", {"0": -1})})
    n = 0
    for f in M.functions.values():
        ident = f["identifier"]
        for e in f["exprs"]:
            tname = M.method_body(e, "type_def")
            adt = facts.adts.get(e)
            rn = M.resolve_body(e)
            if not tname or not adt or not rn:
                continue
            rb = facts.body(rn)
            v = adt["variants"][0]
            for fld, ty in zip(v["fields"], v["ftys"]):
                if "dyn compiler::expression::Expression" not in ty:
                    continue
                starts = sr.argument_value_locals(facts, rb, fld)
                # also `map_resolve_with_default(self.fld, ..)` for optional arguments
                for bb, t in rb.calls():
                    if rb.callee(t).endswith("map_resolve_with_default") and t["args"]:
                        r = cfgq.ref_root(rb, op_local(t["args"][0])) if op_local(t["args"][0]) is not None else None
                        if r and r[0] == 1 and fld in r[1]:
                            starts.append(t["dest"]["l"])
                if not starts:
                    continue
                al = sr.value_aliases(rb, starts)
                # the helper the value is handed to
                hit = None
                for bb, t in rb.calls():
                    cal = rb.callee(t)
                    pos = [i for i, a in enumerate(t["args"]) if op_local(a) in al]
                    if pos and facts.has(cal) and (cal.startswith("stdlib::") or cal.startswith("<stdlib::")) and "::{closure" not in cal:
                        hb = facts.body(cal)
                        if pos[0] + 1 > hb.argc:
                            continue
                        hal = sr.value_aliases(hb, [pos[0] + 1])
                        # try_integer(param) ... as uN, followed by an order comparison on the cast result
                        ints = set()
                        for cbb, ct in hb.calls():
                            if hb.callee(ct).endswith("VrlValueConvert>::try_integer") and ct["args"] and op_local(ct["args"][0]) in hal:
                                ints |= sr.value_aliases(hb, [ct["dest"]["l"]])
                        for bi, si, st in hb.iter_stmts():
                            rv = st["rv"]
                            if rv["k"] == "cast" and rv.get("ck") == "IntToInt" and rv.get("from") in ("i64", "isize") and (rv.get("to") or "").startswith("u") \
                                    and op_local(rv["op"]) in ints:
                                res_al = sr.alias_set(hb, st["d"]["l"])
                                if any(g for g in sr.order_guards(hb, res_al)):
                                    hit = (cal, st.get("ln"))
                if not hit:
                    continue
                n += 1
                fields = {}
                exprs = {}
                for fld2, ty2 in zip(v["fields"], v["ftys"]):
                    if re.match(r"^std::boxed::Box<\(?dyn compiler::expression::Expression", ty2):
                        fields[fld2] = tinfo.boxed(tinfo.Expr(fld2))
                    elif ty2.startswith("std::option::Option<std::boxed::Box<"):
                        fields[fld2] = tinfo.Enum("std::option::Option", "Some", {"0": tinfo.boxed(tinfo.Expr(fld2))})
                    else:
                        fields[fld2] = tinfo.UNK
                    exprs[fld2] = tinfo.TD({"integer"} if fld2 == fld else set(tinfo.KINDS))
                it = tinfo.Interp(facts, exprs, {fld: minus_one})
                d = {"function": ident, "argument": fld, "cast_then_bounded_at": "%s line %s" % hit}
                try:
                    res = it.call_body(tname, [tinfo.Ref(tinfo.Enum(e, None, dict(fields))), tinfo.Ref(tinfo.ST())])
                except tinfo.Undecided as ex:
                    d["undecided"] = str(ex)[:120]
                    chk.instance(rid, d, ok=None)
                    chk.note(rid, "%s: type_def with a literal could not be evaluated (%s)" % (ident, str(ex)[:80]))
                    continue
                ok = isinstance(res, tinfo.TD) and res.fallible
                d["type_def_for_literal_minus_one"] = repr(res)
                chk.instance(rid, d, ok=ok)
                if not ok:
                    chk.violation(rid, f["file"], e, "`%s(.., %s: -1)` typed infallible" % (ident, fld),
                                  "`%s`: resolve casts `%s` to an unsigned type and rejects what is out of range afterwards (%s line %s), so a negative literal is "
                                  "an error at run time; but type_def with the literal -1 yields %r: `%s(.., -1)` compiles without `!` and fails"
                                  % (ident, fld, hit[0], hit[1], res, ident), detail=d)
    chk.extra["R02i_arguments"] = n
