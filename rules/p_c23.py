"""C23 — encryption round-trips for every algorithm (dispatch-table agreement between encrypt and decrypt)."""
import re
import trie
import cfgq

CIPHER_TOK = re.compile(r"aes::Aes\d+|Ctr64LE|Ctr64BE|cfb_mode::|ofb::Ofb|cbc::|AnsiX923|Pkcs7|Iso7816|Iso10126|Aes128SivAead|Aes256SivAead|"
                        r"XChaCha20Poly1305|ChaCha20Poly1305|XSalsa20Poly1305|\[u8; \d+\]|IpcryptPfx|Ipcrypt\b|to_key::<\d+>|get_key_bytes::<\d+>|get_iv_bytes::<\d+>")
PAIRS = [("stdlib::encrypt::encrypt", "stdlib::decrypt::decrypt", 30), ("stdlib::encrypt_ip::encrypt_ip", "stdlib::decrypt_ip::decrypt_ip", 2)]
VALIDATORS = {"stdlib::encrypt::encrypt": ["stdlib::encrypt::is_valid_algorithm"]}


def cipher_tokens(sig):
    out = set()
    for s in sig:
        for m in CIPHER_TOK.finditer(s):
            tok = m.group(0)
            # XChaCha20Poly1305 also matches ChaCha20Poly1305 inside it: keep the longest at that position only
            out.add(tok)
        if "XChaCha20Poly1305" in s:
            out.discard("ChaCha20Poly1305") if "ChaCha20Poly1305" not in re.sub("XChaCha20Poly1305", "", s) else None
    return out


def run(chk):
    facts = chk.facts
    chk.explanation = (
        "Decides dispatch-table agreement, not the ciphers. With P-TRIE (literal dispatch reconstruction from the str-equality chains in MIR): R23a the "
        "algorithm-name sets of encrypt's dispatch, decrypt's dispatch and is_valid_algorithm are equal (same for encrypt_ip/decrypt_ip modes); R23b for each "
        "name the leaf on both sides instantiates the same cipher type, block mode, padding and key/IV sizes (tokens extracted from the monomorphic callee "
        "names in the leaf's exclusive blocks). An algorithm added, dropped or re-mapped on one side breaks the round trip for that algorithm while every "
        "fixed vector still passes. Undecided: the ciphers, nonce/tag framing.")
    for enc, dec, floor in PAIRS:
        be = chk.anchor(enc, "R23a")
        bd = chk.anchor(dec, "R23a")
        if be is None or bd is None:
            continue
        de, dd = trie.literal_dispatch(facts, be), trie.literal_dispatch(facts, bd)
        rid = "R23a"
        chk.rule(rid, "name sets of the encrypt / decrypt dispatch (and the validator) are equal", floor=2)
        d = {"encrypt": enc, "decrypt": dec, "encrypt_names": len(de), "decrypt_names": len(dd), "only_encrypt": sorted(set(de) - set(dd)),
             "only_decrypt": sorted(set(dd) - set(de))}
        ok = set(de) == set(dd) and len(de) >= floor
        chk.instance(rid, d, ok=ok)
        if not ok:
            chk.violation(rid, be.file, enc, "dispatch name sets differ",
                          "%s and %s do not accept the same names (only encrypt: %s; only decrypt: %s; %d names, expected >= %d)"
                          % (enc, dec, d["only_encrypt"][:3], d["only_decrypt"][:3], len(de), floor), detail=d)
        for v in VALIDATORS.get(enc, []):
            vb = chk.anchor(v, rid)
            if vb is None:
                continue
            dv = trie.literal_dispatch(facts, vb)
            d = {"validator": v, "names": len(dv), "not_dispatched": sorted(set(dv) - set(de)), "not_validated": sorted(set(de) - set(dv))}
            ok = set(dv) == set(de)
            chk.instance(rid, d, ok=ok)
            if not ok:
                chk.violation(rid, vb.file, v, "validator and dispatch differ",
                              "is_valid_algorithm accepts %s that encrypt does not dispatch / misses %s" % (d["not_dispatched"][:3], d["not_validated"][:3]), detail=d)
        rid = "R23b"
        chk.rule(rid, "per name: encrypt and decrypt leaves instantiate the same cipher, mode, padding and key/IV sizes", floor=30)
        se, sd = trie.leaf_signatures(facts, be, de), trie.leaf_signatures(facts, bd, dd)
        for name in sorted(set(de) & set(dd)):
            te, td = cipher_tokens(se[name]), cipher_tokens(sd[name])
            d = {"name": name, "encrypt": sorted(te), "decrypt": sorted(td)}
            ok = te == td and bool(te)
            chk.instance(rid, d, ok=ok)
            if not ok:
                chk.violation(rid, bd.file, dec, "`%s` mapped differently" % name,
                              "`%s`: encrypt uses %s but decrypt uses %s — decrypt(encrypt(p)) != p for this algorithm" % (name, sorted(te - td) or sorted(te), sorted(td - te) or sorted(td)),
                              detail=d)
