"""C13 — closure parameters are scoped to the closure (pairing on all exits)."""
from facts import op_place, op_local, flow_sources, forward_taint

RUNNER_PREFIX = "compiler::function::closure::Runner::<'a, T>::"
INSERT = "compiler::function::closure::insert"
CLEANUP = "compiler::function::closure::cleanup"
SWAP = "compiler::state::RuntimeState::swap_variable"
BUILDER_COMPILE_CLOSURE = "compiler::expression::function_call::Builder::<'a>::compile_closure"
BUILDER_CHECK_CLOSURE = "compiler::expression::function_call::Builder::<'a>::check_closure"
LOCAL_INSERT = "compiler::state::LocalEnv::insert_variable"
LOCAL_REMOVE = "compiler::state::LocalEnv::remove_variable"


def run(chk):
    facts = chk.facts
    chk.explanation = (
        "Decides the acquire/release pairing behind C13, not the values of variables after arbitrary programs. "
        "R13d: two parameters bound in sequence are restored in reverse order (LIFO), so that `|x, x|` leaves the outer `x` intact. "
        "R13e: the run-time cleanup both restores a shadowed value and un-defines a parameter that shadowed nothing. R13a: in every closure Runner method, each closure::insert (swap the parameter in, remember the old value) is followed on EVERY "
        "non-unwind path to a Return — including `?` error exits — by closure::cleanup of the same identifier with the value that insert returned. "
        "R13b: who-may-call — RuntimeState::swap_variable is called only from closure::insert; every closure-taking stdlib function reaches the "
        "closure only through Runner. R13c: compile-time twin — Builder::compile_closure restores-or-removes every closure variable that "
        "check_closure inserted, before any of its exits. Undecided: closures shadowing their own parameters, panics inside closures.")
    chk.assumptions += [
        "a path is any non-unwind CFG path of the optimised (opt-level 0) MIR; path feasibility is not considered for R13a, so the rule can only "
        "over-report — on the pinned tree every reported path is the `?` early return, which is feasible whenever the closure fails",
        "closure parameters are only ever bound through closure::insert (checked by R13b)",
    ]
    rid = "R13a"
    chk.rule(rid, "every closure::insert is matched by closure::cleanup(same ident, value returned by insert) on all exits", floor=6)
    runners = [n for n in facts.names() if n.startswith(RUNNER_PREFIX) and "::{closure" not in n]
    if not runners:
        chk.fail_closed(rid, "no Runner methods found")
    for n in runners:
        b = facts.body(n)
        inserts = [(bb, t) for bb, t in b.calls() if b.callee(t) == INSERT]
        cleanups = [(bb, t) for bb, t in b.calls() if b.callee(t) == CLEANUP]
        for ordinal, (ibb, it) in enumerate(inserts):
            old = it["dest"]["l"]
            tainted = forward_taint(b, {old})
            ident_src = {s for s in flow_sources(b, op_local(it["args"][1])) if s[0] == "call"} if op_local(it["args"][1]) is not None else set()
            match = []
            for cbb, ct in cleanups:
                a2 = op_local(ct["args"][2])
                a1 = op_local(ct["args"][1])
                if a2 is None or a2 not in tainted:
                    continue
                c_ident = {s for s in flow_sources(b, a1) if s[0] == "call"} if a1 is not None else set()
                if ident_src and c_ident and not (ident_src & c_ident):
                    continue
                match.append(cbb)
            desc = {"fn": n, "insert_at": "%s:%s" % (b.file, it["ln"]), "ident_arg": ordinal,
                    "cleanup_blocks": match}
            if not match:
                chk.instance(rid, desc, ok=False)
                chk.violation(rid, b.file, n, "insert#%d without cleanup" % ordinal,
                              "closure parameter inserted at line %s is never restored by closure::cleanup with the saved value" % it["ln"],
                              detail=desc, loc=desc["insert_at"])
                continue
            ok, exit_bb = b.all_paths_from_pass_through(ibb, match)
            if ok:
                chk.instance(rid, desc, ok=True)
            else:
                # describe the escaping path's last branching point
                t = b.term(exit_bb)
                # find the block on the escaping path that leaves towards the exit: report residual/`?` sites
                esc = escaping_exit(b, ibb, match)
                desc["escaping_exit"] = esc
                chk.instance(rid, desc, ok=False)
                chk.violation(rid, b.file, n, "insert#%d cleanup skipped on an exit" % ordinal,
                              "closure parameter inserted at line %s is not restored on the exit through %s: the parameter's value leaks into "
                              "the enclosing scope when the closure fails" % (it["ln"], esc), detail=desc, loc=desc["insert_at"])

    rid = "R13d"
    chk.rule(rid, "parameters are restored in reverse order of binding (two parameters may name the same variable)", floor=2)
    for n in runners:
        b = facts.body(n)
        inserts = [(bb, t) for bb, t in b.calls() if b.callee(t) == INSERT]
        cleanups = [(bb, t) for bb, t in b.calls() if b.callee(t) == CLEANUP]
        if len(inserts) < 2:
            continue
        # order of the inserts along the CFG
        inserts.sort(key=lambda x: sum(1 for y in inserts if b.dominates(y[0], x[0])))
        pairs = []
        for ibb, it in inserts:
            tainted = forward_taint(b, {it["dest"]["l"]})
            cb_ = [cbb for cbb, ct in cleanups if op_local(ct["args"][2]) in tainted]
            pairs.append((ibb, it, cb_))
        bad = None
        for i in range(len(pairs)):
            for j in range(i + 1, len(pairs)):
                # insert i happens before insert j  =>  every cleanup of j must precede (dominate) the cleanup of i
                ci, cj = pairs[i][2], pairs[j][2]
                if not ci or not cj:
                    continue
                if not all(any(b.dominates(y, x) and x != y for y in cj) for x in ci):
                    bad = (pairs[i][1]["ln"], pairs[j][1]["ln"])
        d = {"fn": n, "inserts": [p_[1]["ln"] for p_ in pairs], "cleanup_blocks": [p_[2] for p_ in pairs]}
        chk.instance(rid, d, ok=bad is None)
        if bad is not None:
            chk.violation(rid, b.file, n, "parameters restored in binding order",
                          "the parameter bound first (line %s) is restored before the one bound second (line %s): when both name the same variable "
                          "(`|x, x|`) the second restore puts the first parameter's value back and it leaks into the enclosing scope" % bad, detail=d,
                          loc="%s:%s" % (b.file, bad[0]))

    rid = "R13b"
    chk.rule(rid, "RuntimeState::swap_variable is called only by closure::insert; closure::insert/cleanup only by Runner methods", floor=3)
    for callee, allowed in ((SWAP, {INSERT}), (INSERT, set(runners)), (CLEANUP, set(runners))):
        if not facts.has(callee):
            chk.fail_closed(rid, "anchor not found: %s" % callee)
            continue
        callers = set(facts.callers(callee))
        desc = {"callee": callee, "callers": sorted(callers)}
        bad = [c for c in callers if c.split("::{closure")[0] not in allowed]
        if bad:
            chk.instance(rid, desc, ok=False)
            for c in bad:
                cb = facts.body(c)
                chk.violation(rid, cb.file, c, "call of %s" % callee.rsplit("::", 1)[1],
                              "%s is called outside the closure Runner pairing discipline" % callee, detail=desc)
        else:
            chk.instance(rid, desc, ok=True)

    rid = "R13e"
    chk.rule(rid, "run-time cleanup puts a shadowed value back AND un-defines a parameter that shadowed nothing (reaches a map insertion and a map removal "
                  "on RuntimeState.variables)", floor=2)
    if not facts.has(CLEANUP):
        chk.fail_closed(rid, "anchor not found: %s" % CLEANUP)
    else:
        import re as _re
        seen, ext, par = facts.reach([CLEANUP], cha=False)
        inside = [n for n in seen if n.startswith("compiler::state::RuntimeState::") or n == CLEANUP]
        ext_calls = set()
        for n in inside:
            ext_calls |= set(facts.callees(n))
        ins = sorted(c for c in ext_calls if _re.search(r"std::collections::(HashMap|BTreeMap)::<.*>::insert$|Entry.*::(insert|or_insert)", c))
        rem = sorted(c for c in ext_calls if _re.search(r"std::collections::(HashMap|BTreeMap)::<.*>::(remove|remove_entry)(::<.*>)?$", c))
        cb = facts.body(CLEANUP)
        for what, found, meaning in (("insert", ins, "a parameter that shadowed an outer variable keeps the closure's value after the call"),
                                     ("remove", rem, "a parameter that shadowed nothing stays defined after the call: a later read of that name (e.g. after an "
                                                     "untaken conditional definition) sees the last element instead of null")):
            d = {"fn": CLEANUP, "needs": "map " + what, "reached_through": sorted(inside), "found": found}
            chk.instance(rid, d, ok=bool(found))
            if not found:
                chk.violation(rid, cb.file, CLEANUP, "no map %s reachable" % what,
                              "closure::cleanup no longer reaches a %s on RuntimeState.variables: %s" % (what, meaning), detail=d,
                              loc="%s:%s" % (cb.file, cb.line))

    rid = "R13c"
    chk.rule(rid, "compile-time twin: compile_closure restores/removes each closure variable (Some -> insert_variable, None -> remove_variable) "
                  "in a loop that every exit of the closure branch passes", floor=3)
    b = chk.anchor(BUILDER_COMPILE_CLOSURE, rid)
    cb = chk.anchor(BUILDER_CHECK_CLOSURE, rid)
    if cb is not None:
        ins = [bb for bb, t in cb.calls() if cb.callee(t) == LOCAL_INSERT]
        d = {"fn": BUILDER_CHECK_CLOSURE, "insert_variable_calls": len(ins)}
        chk.instance(rid, d, ok=bool(ins))
        if not ins:
            chk.fail_closed(rid, "check_closure no longer inserts closure variables through LocalEnv::insert_variable; re-derive the pairing")
    if b is not None:
        rem = [(bb, t) for bb, t in b.calls() if b.callee(t) == LOCAL_REMOVE]
        ins = [(bb, t) for bb, t in b.calls() if b.callee(t) == LOCAL_INSERT]
        # the remove on `locals` (parameter 3, by value) vs the remove on state.local ((*_4).local)
        def recv_is_param(t, argn):
            srcs = flow_sources(b, op_local(t["args"][0]))
            return ("arg", argn) in srcs
        take = [(bb, t) for bb, t in rem if recv_is_param(t, 3)]
        rem_state = [(bb, t) for bb, t in rem if recv_is_param(t, 4)]
        ins_state = [(bb, t) for bb, t in ins if recv_is_param(t, 4)]
        d = {"fn": BUILDER_COMPILE_CLOSURE, "take_from_snapshot": len(take), "restore": len(ins_state), "remove": len(rem_state)}
        ok = bool(take and rem_state and ins_state)
        if ok:
            # restore/remove must hang off the two arms of the discriminant test on the taken value
            tbb, tt = take[0]
            res = tt["dest"]["l"]
            arms_ok = False
            for bi, t in b.iter_terms("switch"):
                l = op_local(t["op"])
                ds = b.defs().get(l, [])
                if len(ds) == 1 and ds[0][0] == "stmt" and ds[0][3]["rv"]["k"] == "discr" and ds[0][3]["rv"]["p"]["l"] == res:
                    tg = dict((v, x) for v, x in t["targets"])
                    some_bb = tg.get("1", t["otherwise"])
                    none_bb = tg.get("0", t["otherwise"])
                    r_some = b.reachable_from_edges([some_bb], avoid=[none_bb, tbb])
                    r_none = b.reachable_from_edges([none_bb], avoid=[some_bb, tbb])
                    if any(x[0] in r_some for x in ins_state) and any(x[0] in r_none for x in rem_state):
                        arms_ok = True
            d["arms_ok"] = arms_ok
            ok = arms_ok
        chk.instance(rid, d, ok=ok)
        if not ok:
            chk.violation(rid, b.file, BUILDER_COMPILE_CLOSURE, "closure-variable restore loop",
                          "compile_closure does not restore (Some) / remove (None) every closure variable from the snapshot", detail=d)
        # every exit after the closure branch is taken passes the loop header
        if take:
            tbb = take[0][0]
            # loop header = nearest dominator of tbb that calls Iterator::next
            hdr = None
            for bb, t in b.calls():
                if b.callee(t).endswith("as std::iter::Iterator>::next") and b.dominates(bb, tbb):
                    hdr = bb
            d2 = {"fn": BUILDER_COMPILE_CLOSURE, "loop_header_bb": hdr}
            if hdr is None:
                chk.instance(rid, d2, ok=None)
                chk.fail_closed(rid, "restore loop header not found in compile_closure")
            else:
                # blocks constructing the function's results for the closure branch: all returns reachable from hdr
                # must be dominated by hdr unless they are on the no-closure branch (not reachable from hdr at all)
                bad = []
                for r in b.return_blocks():
                    pass
                # exits of the closure branch = Return blocks reachable from hdr; the no-closure branch is the path to a Return
                # avoiding hdr. Require: the no-closure path constructs Ok((None, false)) only.
                reach_wo = b.reachable(0, avoid=[hdr])
                errs = []
                for bi, si, s in b.iter_stmts():
                    if bi in reach_wo and s["rv"]["k"] == "agg" and s["rv"].get("variant") == "Err" and s["d"]["l"] == 0:
                        errs.append(bi)
                closure_built = [bi for bi, t in b.calls() if bi in reach_wo and b.callee(t).endswith("Closure::new")]
                d2["err_exits_bypassing_loop"] = errs
                d2["closure_built_bypassing_loop"] = closure_built
                ok2 = not errs and not closure_built
                chk.instance(rid, d2, ok=ok2)
                if not ok2:
                    chk.violation(rid, b.file, BUILDER_COMPILE_CLOSURE, "exit bypasses restore loop",
                                  "an exit of the closure branch of compile_closure is reachable without passing the loop that restores the "
                                  "closure variables", detail=d2)


def escaping_exit(b, start, through):
    """name the statement through which a path from `start` reaches Return without `through`"""
    from collections import deque
    through = set(through)
    prev = {}
    dq = deque()
    for s in b.succ(start):
        prev[s] = start
        dq.append(s)
    rets = set(b.return_blocks())
    seen = set()
    while dq:
        x = dq.popleft()
        if x in seen or x in through:
            continue
        seen.add(x)
        if x in rets:
            path = [x]
            while path[-1] != start:
                path.append(prev[path[-1]])
            path.reverse()
            for p in path:
                t = b.term(p)
                if t["k"] == "call" and b.callee(t).endswith("::from_residual"):
                    return "`?` at %s:%s" % (b.file, t["ln"])
            for p in path:
                t = b.term(p)
                if t["k"] == "switch":
                    last = "branch at %s:%s" % (b.file, t["ln"])
            return locals().get("last", "bb%d" % x)
        for s in b.succ(x):
            if s not in prev:
                prev[s] = x
            dq.append(s)
    return None
