"""C36 — results are independent of the configured timezone where they should be."""
from facts import op_local, flow_sources, uses_of
import fmap
import cfgq

CTX_TZ = "compiler::context::Context::<'a>::timezone"
# functions that may read the configured zone, each a wall-clock interpreter (frozen, one line of reason each)
TZ_READERS = {
    "parse_timestamp": "parses a timestamp text that may carry no zone; explicit `timezone` argument overrides (R36b)",
    "parse_syslog": "RFC3164 timestamps carry no zone",
    "parse_linux_authorization": "delegates to parse_syslog",
    "parse_apache_log": "apache error-log timestamps carry no zone; explicit zones in the text win inside chrono",
    "parse_nginx_log": "nginx error-log timestamps carry no zone",
    "parse_common_log": "custom timestamp_format may carry no zone",
    "get_timezone_name": "reports the configured zone itself",
}


def run(chk):
    facts = chk.facts
    chk.explanation = (
        "Decides where the configured timezone can enter a result, not chrono's arithmetic. R36a: the set of stdlib functions whose resolve/compile can "
        "reach Context::timezone() (P-EFFECT) equals the frozen table of wall-clock interpreters; no core expression reaches it. R36b: in a function with "
        "an explicit `timezone` parameter the value of ctx.timezone() is used only as the default of the absent argument (it flows only into "
        "Option::unwrap_or's default operand whose receiver derives from the argument). R36c: follows from R36a (format_timestamp, to/from_unix_timestamp "
        "and every other function have no TZ_READ atom). R36d: chrono::Local / the OS zone is reachable only from get_timezone_name and TimeZone's own "
        "methods. Undecided: chrono's handling of explicit offsets.")
    M = fmap.FMap(facts)
    rid = "R36a"
    chk.rule(rid, "functions reaching Context::timezone() == frozen table of wall-clock interpreters", floor=150)
    readers = {}
    for f in M.functions.values():
        ident = f["identifier"]
        roots = [r for r in (M.resolve_body(e) for e in f["exprs"]) if r] + [f["compile"]]
        for e in f["exprs"]:
            for m in ("type_def", "type_info", "resolve_constant"):
                mb = M.method_body(e, m)
                if mb:
                    roots.append(mb)
        eff, seen, ext = fmap.effects(facts, roots)
        tz = eff.get("TZ_READ")
        ltz = eff.get("LOCAL_TZ")
        d = {"function": ident, "tz_read": bool(tz), "via": tz[0][1][-3:] if tz else None}
        if tz:
            readers[ident] = f
            if ident in TZ_READERS:
                d["reason"] = TZ_READERS[ident]
                chk.instance(rid, d, ok=True)
            else:
                chk.instance(rid, d, ok=False)
                chk.violation(rid, f["file"], f["self"], "`%s` reads the configured timezone" % ident,
                              "`%s` can reach Context::timezone() (via %s) but is not a reviewed wall-clock interpreter: its result would change with the "
                              "configured zone" % (ident, " -> ".join(tz[0][1][-3:])), detail=d)
        else:
            chk.instance(rid, d, ok=True)
        if ltz and ident != "get_timezone_name":
            chk.violation("R36d", f["file"], f["self"], "`%s` reaches the process-local zone" % ident,
                          "`%s` reaches %s outside TimeZone's own dispatch" % (ident, ltz[0][0]), detail={"function": ident, "callee": ltz[0][0]})
    missing = [k for k in TZ_READERS if k not in readers and k in M.by_ident]
    for k in missing:
        chk.note(rid, "table entry `%s` no longer reads the timezone (table may be trimmed)" % k)
    # callers of Context::timezone are bodies of the tabled functions only
    if facts.has(CTX_TZ):
        callers = sorted(set(c.split("::{closure")[0] for c in facts.callers(CTX_TZ)))
        ok_mods = tuple("stdlib::%s::" % k for k in TZ_READERS)
        bad = [c for c in callers if not c.startswith(ok_mods)]
        d = {"callee": CTX_TZ, "callers": callers}
        chk.instance(rid, d, ok=not bad)
        for c in bad:
            cb = facts.body(c)
            chk.violation(rid, cb.file, c, "Context::timezone caller", "Context::timezone() is read outside the reviewed wall-clock interpreters", detail=d,
                          loc="%s:%d" % (cb.file, cb.line))
    else:
        chk.fail_closed(rid, "anchor not found: %s" % CTX_TZ)

    rid = "R36b"
    chk.rule(rid, "explicit `timezone` argument: ctx.timezone() only feeds the default operand of unwrap_or on the argument", floor=1)
    for c in sorted(set(facts.callers(CTX_TZ))) if facts.has(CTX_TZ) else []:
        b = facts.body(c)
        fam_has_tz_arg = any((n or "").lower() in ("timezone", "tz") for n in [l.get("n") for l in b.locals[1:b.argc + 1]])
        if not fam_has_tz_arg and "::{closure" in c:
            # a closure of a function that has an explicit timezone parameter: only `<tz-derived option>.unwrap_or_else(|| *ctx.timezone())` is accepted
            parent = c.split("::{closure")[0]
            if facts.has(parent):
                pb = facts.body(parent)
                tz_params = [i for i in range(1, pb.argc + 1) if (pb.local_name(i) or "").lower() in ("timezone", "tz")]
                if tz_params:
                    okc = False
                    for bi, si, st in pb.iter_stmts():
                        if st["rv"]["k"] == "agg" and st["rv"].get("closure") == c:
                            cl_local = st["d"]["l"]
                            for kind, ubb, usi, ux in uses_of(pb, cl_local):
                                if kind == "call" and pb.callee(ux).endswith("::unwrap_or_else") and "option::Option" in pb.callee(ux):
                                    recv = op_local(ux["args"][0])
                                    src = flow_sources(pb, recv) if recv is not None else set()
                                    if any(("arg", i) in src for i in tz_params):
                                        okc = True
                    d = {"fn": c, "parent": parent, "closure_is_default_of_explicit_timezone": okc}
                    chk.instance(rid, d, ok=okc)
                    if not okc:
                        chk.violation(rid, b.file, c, "ctx.timezone() read inside a closure of a function with an explicit timezone",
                                      "the configured timezone is read in a closure that is not the `unwrap_or_else` default of the explicit `timezone` "
                                      "argument: it can influence the result although an explicit zone was given", detail=d, loc="%s:%d" % (b.file, b.line))
            continue
        if not fam_has_tz_arg:
            continue
        for bb, t in b.calls():
            if b.callee(t) != CTX_TZ:
                continue
            # follow the reference result: deref copies, then uses
            res = t["dest"]["l"]
            frontier = {res}
            consumers = []
            seen = set()
            while frontier:
                l = frontier.pop()
                if l in seen:
                    continue
                seen.add(l)
                for kind, ubb, si, x in uses_of(b, l):
                    if kind == "stmt" and x["rv"]["k"] in ("use", "ref", "cast"):
                        frontier.add(x["d"]["l"])
                    elif kind == "call":
                        consumers.append((b.callee(x), [i for i, a in enumerate(x["args"]) if op_local(a) == l], x))
                    elif kind in ("drop",):
                        pass
                    else:
                        consumers.append((kind, [], x))
            ok = bool(consumers)
            for cal, pos, x in consumers:
                if cal == "std::option::Option::<T>::unwrap_or" and pos == [1]:
                    recv = op_local(x["args"][0])
                    src = flow_sources(b, recv) if recv is not None else set()
                    # receiver derives from the timezone parameter
                    tz_params = [i for i in range(1, b.argc + 1) if (b.local_name(i) or "").lower() in ("timezone", "tz")]
                    if not any(("arg", i) in src for i in tz_params):
                        ok = False
                else:
                    ok = False
            d = {"fn": c, "at": "%s:%s" % (b.file, t["ln"]), "consumers": [cc[0] for cc in consumers]}
            if not ok:
                # other accepted idiom: `match explicit { Some(z) => z, None => *ctx.timezone() }` — the read sits on the None edge of a
                # test on an Option that derives from the timezone argument and is unreachable from its Some edge
                import cfgq
                tz_params = [i for i in range(1, b.argc + 1) if (b.local_name(i) or "").lower() in ("timezone", "tz")]
                for sbb, place, adt, tg, other in cfgq.discr_switches_on(facts, b, lambda p_, a_: a_ == "std::option::Option"):
                    src = flow_sources(b, place["l"], pass_through=lambda c_: True)
                    if not any(("arg", i) in src for i in tz_params):
                        continue
                    none_t = tg.get("None")
                    some_t = tg.get("Some", other)
                    if none_t is None:
                        none_t = other
                    if none_t is None or some_t is None or none_t == some_t:
                        continue
                    from_none = b.reachable_from_edges([none_t], avoid=[sbb])
                    from_some = b.reachable_from_edges([some_t], avoid=[sbb])
                    if bb in from_none and bb not in from_some:
                        ok = True
                        d["discharged_by"] = "read only on the None edge of the test on the explicit timezone (line %s)" % b.term(sbb).get("ln")
            chk.instance(rid, d, ok=ok)
            if not ok:
                chk.violation(rid, b.file, c, "ctx.timezone() used beyond the argument default",
                              "the configured timezone influences the result even when an explicit `timezone` argument is given", detail=d, loc=d["at"])

    rid = "R36d"
    chk.rule(rid, "chrono::Local / OS zone lookups only in get_timezone_name and compiler::datetime", floor=1)
    local_users = []
    for i in facts.index:
        for c in i["callees"]:
            if ("chrono::Local" in c or "chrono::offset::local::Local" in c or c.startswith("iana_time_zone::")) and "LocalResult" not in c:
                local_users.append((i["name"], c))
    for n, c in local_users:
        ok = n.startswith("stdlib::get_timezone_name::") or n.startswith("compiler::datetime::") or n.startswith("cli::")
        d = {"fn": n, "callee": c}
        chk.instance(rid, d, ok=ok)
        if not ok:
            b = facts.body(n)
            chk.violation(rid, b.file, n, "process-local zone used", "%s uses %s: results depend on the host's zone rather than the configured one" % (n, c), detail=d)
    if not local_users:
        chk.instance(rid, {"note": "no chrono::Local / iana_time_zone callee anywhere in the crate"}, ok=True)
