"""R06c / R07c: inside one expression's resolve, a child expression is evaluated only while every child evaluated before it succeeded.

For every `impl Expression for X { fn resolve }` of the compiler's own expressions (compiler::expression::*, excluding the function-call
adapter), P-VAR tracks the Result of each child evaluation (`<child>.resolve(ctx)`) and the ControlFlow produced by `?` on it.  At a later
child evaluation no earlier child's result may still be `Err` / `Break` in the abstract state — otherwise the later child runs (and its side
effects happen) after an earlier one already raised an error, an `abort` or a `return`.
Frozen exception: Op::resolve's `??` arm evaluates the right operand exactly when the left one is Err (R08a/R06a decide which errors)."""
import re
from facts import op_local, op_place
from varflow import VarFlow, MOVED
import cfgq

EXPR_RESOLVE = re.compile(r"^<compiler::expression::([\w:#]+) as compiler::expression::Expression>::resolve$")
CHILD_EVAL = re.compile(r"(compiler::expression::Expression::resolve$|as compiler::expression::Expression>::resolve$|as compiler::expression::Expression>::resolve - virtual)")
ALLOWED = {
    "<compiler::expression::op::Op as compiler::expression::Expression>::resolve":
        "`a ?? b`: b is evaluated exactly when a is an error that is neither abort nor return (R08a, R06a, R07a)",
}


def rule_sibling_evaluation(chk, rid, what):
    facts = chk.facts
    chk.rule(rid, "in every expression's resolve a child is evaluated only while all earlier children succeeded (%s)" % what, floor=4)
    bodies = [n for n in facts.names() if EXPR_RESOLVE.match(n)]
    for n in sorted(bodies):
        b = facts.body(n)
        evals = []
        for bb, t in b.calls():
            full = t.get("rfn_full") or t.get("fn_full") or b.callee(t)
            if CHILD_EVAL.search(b.callee(t)) or CHILD_EVAL.search(full):
                if (t.get("dty") or "").startswith("std::result::Result<value::value::Value"):
                    evals.append((bb, t))
        if len(evals) < 2:
            continue
        res_locals = [t["dest"]["l"] for bb, t in evals]
        # ControlFlow locals produced by `?` on those results
        cf_of = {}
        for bb, t in b.calls():
            if b.callee(t).endswith("as std::ops::Try>::branch") and t["args"] and op_local(t["args"][0]) in res_locals:
                cf_of[t["dest"]["l"]] = op_local(t["args"][0])
        track = sorted(set(res_locals) | set(cf_of))
        vf = VarFlow(facts, b, extra_locals=track)
        bad = {}

        def on_term(bb, t, st, b=b, evals=evals, cf_of=cf_of, res_locals=res_locals, bad=bad):
            if t["k"] != "call" or (bb, t) not in [(x, y) for x, y in evals]:
                return
            me = t["dest"]["l"]
            for l in track:
                if l == me or cf_of.get(l) == me:
                    continue
                v = st.get("_%d" % l)
                if v is None:
                    # a Result that exists but was never tested may be an error — if that evaluation already happened on this path
                    if l in res_locals and l not in cf_of.values():
                        ebbs = [ebb for ebb, et in evals if et["dest"]["l"] == l]
                        if ebbs and all(b.dominates(ebb, bb) and ebb != bb for ebb in ebbs):
                            bad.setdefault(bb, (t["ln"], l))
                    continue
                vs = set(v) - {MOVED}
                if ("Err" in vs and l in res_locals and l != me) or ("Break" in vs and l in cf_of and cf_of[l] != me):
                    # the earlier evaluation must really precede this one
                    earlier = [ebb for ebb, et in evals if et["dest"]["l"] == (cf_of.get(l, l))]
                    if earlier and any(ebb != bb and bb in b.reachable_from_edges(b.succ(ebb)) for ebb in earlier):
                        bad.setdefault(bb, (t["ln"], l))
        vf.run(on_term=on_term)
        d = {"fn": n, "child_evaluations": len(evals), "evaluated_after_a_failed_sibling": sorted(x[0] for x in bad.values())}
        if bad and n in ALLOWED:
            d["allowed"] = ALLOWED[n]
            # the allowed body may have exactly the documented site(s): the `??` arm
            if len(bad) <= 1:
                chk.instance(rid, d, ok=True)
                continue
        chk.instance(rid, d, ok=not bad)
        for bb, (ln, l) in sorted(bad.items()):
            chk.violation(rid, b.file, n, "child evaluated after a failed sibling #%d" % sorted(bad).index(bb),
                          "%s evaluates a child expression (line %s) in a state where an earlier child's result may be an error/abort/return: the later "
                          "child's side effects happen although the expression already %s" % (n.split(" as ")[0].lstrip("<"), ln, what), detail=d,
                          loc="%s:%s" % (b.file, ln))


RUNNER_CALL = re.compile(r"closure::Runner::<.*>::(run_key_value|run_index_value|map_key|map_value)$")


def rule_iteration_stops(chk, rid, what):
    """closure-taking stdlib functions stop iterating at the first abort / return / error of the closure"""
    facts = chk.facts
    chk.rule(rid, "every body that invokes a closure Runner method hands the Runner's Result on (its own return type carries ExpressionError) and never "
                  "invokes the Runner again once an invocation failed (%s)" % what, floor=6)
    n_bodies = 0
    for i in facts.index:
        n = i["name"]
        if not any(RUNNER_CALL.search(c) for c in i["callees"]):
            continue
        if n.startswith("compiler::function::closure::"):
            continue
        n_bodies += 1
        b = facts.body(n)
        ret = b.local_ty(0)
        carries = "ExpressionError" in ret
        evals = [(bb, t) for bb, t in b.calls() if RUNNER_CALL.search(b.callee(t))]
        res_locals = [t["dest"]["l"] for bb, t in evals]
        cf_of = {}
        for bb, t in b.calls():
            if b.callee(t).endswith("as std::ops::Try>::branch") and t["args"] and op_local(t["args"][0]) in res_locals:
                cf_of[t["dest"]["l"]] = op_local(t["args"][0])
        track = sorted(set(res_locals) | set(cf_of))
        vf = VarFlow(facts, b, extra_locals=track)
        again = {}

        def on_term(bb, t, st, b=b, evals=evals, cf_of=cf_of, res_locals=res_locals, again=again, track=track):
            if t["k"] != "call" or not RUNNER_CALL.search(b.callee(t)):
                return
            for l in track:
                v = st.get("_%d" % l)
                if v is None:
                    continue
                vs = set(v) - {MOVED}
                if ("Err" in vs and l in res_locals) or ("Break" in vs and l in cf_of):
                    again.setdefault(bb, t["ln"])
        vf.run(on_term=on_term)
        d = {"fn": n, "return_type_carries_the_error": carries, "runner_invocations": len(evals), "invoked_again_after_failure_at": sorted(again.values())}
        ok = carries and not again
        chk.instance(rid, d, ok=ok)
        if not carries:
            chk.violation(rid, b.file, n, "closure result not handed on",
                          "%s invokes the closure through the Runner but its own return type (%s) cannot carry the closure's abort/return/error: the "
                          "surrounding iteration keeps running the closure for the remaining items after the program already %s" % (n, ret[:60], what), detail=d,
                          loc="%s:%d" % (b.file, b.line))
        for bb, ln in sorted(again.items()):
            chk.violation(rid, b.file, n, "closure invoked again after a failed invocation",
                          "%s can invoke the closure again (line %s) in a state where an earlier invocation failed" % (n, ln), detail=d, loc="%s:%s" % (b.file, ln))
    if n_bodies < 6:
        chk.fail_closed(rid, "only %d bodies invoke a closure Runner method (expected >= 6)" % n_bodies)
