"""C04 — compiling and running never panics the host (six panic classes; everything else undecided)."""
import stdlibrules as sr
import p_c17


def run(chk):
    chk.explanation = (
        "Decides absence of specific classes of panic; it does not prove the ~500 remaining panic-capable sites (indexing, unwrap on internal "
        "invariants, third-party code) safe. R04a: no coercion result on a run-time value is unwrapped in resolve-reachable stdlib code. R04b: no result "
        "of a `dyn Target` call is unwrapped. R04c: every keyword compile() reads is declared (a mismatch is the 'invalid function signature' panic). "
        "R04e: no overflow-capable negation / iN::abs / iN::pow of a run-time signed integer. R04f: no unguarded sign-losing cast feeding a count/index. R04g: no str slice/index bound computed from a character count. R04h: divisors and chunk/window/step sizes are constants or compared against zero. R04i: `regex::Captures` is indexed with the panicking `[]` only at the reviewed sites where the group always takes part in the match (an optional or alternated group makes `caps[i]` panic; `caps.get(i)` is the total API). R04j: in resolve-reachable stdlib code the result of a library call whose failure depends on the *content* of its argument (AEAD decryption = authentication, float->Decimal conversion = range, UTF-8 validation, FromStr parsing, regex compilation) is never consumed directly by unwrap/expect; all other unwrap-on-call sites are listed as instances but not decided. R04k: `rust_decimal::Decimal` arithmetic on a run-time operand goes through the `checked_*` API; the `+ - * / %` operator impls panic on overflow and on a zero divisor in every build profile. R04l: ArgumentList::optional_enum accepts a literal only by Value equality with a declared variant (no case folding / trimming / prefix matching on the way), which is what the stdlib's `expect(\"validated enum\")` / `unreachable!()` arms after an enum argument rely on. R04m: every `rand::Rng::random_range` call (it panics on an empty range, and for floats on a range whose width is not finite) is dominated by an order comparison of its element type and, for floats, by an `is_finite` test. R04n: writer/reader agreement for enum arguments — every variant in the list a compile() passes to optional_enum has an arm in the literal dispatch (byte trie / str equality chain) of the same module that consumes it and ends in `unreachable!()`; a variant without an arm is accepted by the compiler and panics when used.")
    chk.assumptions += ["builds with overflow checks (the test profile) panic on arithmetic overflow; release builds wrap — the rule treats both as defects"]
    M = sr.function_model(chk.facts)
    sr.rule_coercion_unwrapped(chk, "R04a", M)
    chk.rule("R04b", "results of `dyn Target` calls are never unwrapped/expected", floor=6)
    p_c17.check_sites(chk, "R04b")
    sr.rule_keyword_agreement(chk, "R04c", M)
    sr.rule_negation_overflow(chk, "R04e")
    sr.rule_guarded_casts(chk, "R04f")
    sr.rule_char_count_as_byte_index(chk, "R04g")
    sr.rule_zero_intolerant(chk, "R04h")

    rule_r04i(chk)
    rule_r04j(chk, M)
    rule_r04k(chk)
    rule_r04l(chk)
    rule_r04m(chk)
    rule_r04n(chk, M)


CAPTURES_INDEX_OK = {
    "stdlib::parse_duration::parse_duration": "its own static pattern: `value` and `unit` are mandatory named groups",
    "<&stdlib::redact::Redactor as regex::Replacer>::replace_append": "group 0 (the whole match) always participates",
}


def rule_r04i(chk):
    import re
    facts = chk.facts
    rid = "R04i"
    chk.rule(rid, "regex::Captures is indexed with `[]` only at reviewed sites", floor=2)
    for i in facts.index:
        if "/build/" in i["file"] or i["name"].startswith("cli::"):
            continue
        for cal in i["callees"]:
            if re.search(r"^<regex::(bytes::)?Captures<.*> as std::ops::Index<.*>>::index$", cal):
                base = i["name"].split("::{closure")[0]
                d = {"fn": i["name"], "callee": cal, "reviewed": CAPTURES_INDEX_OK.get(base)}
                ok = base in CAPTURES_INDEX_OK
                chk.instance(rid, d, ok=ok)
                if not ok:
                    b = facts.body(i["name"])
                    chk.violation(rid, b.file, i["name"], "Captures indexed with []",
                                  "%s indexes a regex::Captures with `[]`: a named or numbered group that did not take part in the match (optional / "
                                  "alternated groups of a user-supplied pattern) makes this panic; use `.get(i)`" % i["name"], detail=d,
                                  loc="%s:%d" % (b.file, b.line))


# R04j --------------------------------------------------------------------------------------------
# callee patterns whose Err/None depends on the content of a run-time argument (API contract, not an internal invariant)
DATA_DEPENDENT = [
    (r" as [a-z0-9_]+::aead::Aead>::decrypt$", "AEAD decryption fails whenever the ciphertext/tag does not authenticate"),
    (r"FromPrimitive>::from_f(32|64)$", "a float outside the target's range (or non-finite) converts to None"),
    (r"^std::str::from_utf8(_mut)?$|^std::string::String::from_utf8$", "fails on any byte string that is not UTF-8; VRL bytes are arbitrary"),
    (r"^std::str::<impl str>::parse$|FromStr>::from_str$", "parsing fails on any text outside the grammar"),
    (r"^regex::(bytes::)?Regex(Builder)?::(new|build)$", "regex compilation fails on an invalid pattern"),
    (r"DateTime::<.*>::parse_from_|NaiveDateTime::parse_from_str$|NaiveDate::parse_from_str$", "timestamp parsing fails on any text outside the format"),
    (r"^serde_json::(de::)?from_(str|slice|value)$", "JSON decoding fails on malformed input"),
    (r"protobuf::descriptor::get_message_descriptor(_from_bytes)?$|^std::fs::(read|read_to_string)$|^std::fs::File::open$",
     "fails when the named file is missing, unreadable or not what was expected: the path is written by the user"),
    (r"^ordered_float::NotNan::<T>::new$", "fails for NaN: the text \"nan\" parses as a float (str::parse, nom's double), and inf * 0 or inf - inf is NaN"),
    (r"^chrono::FixedOffset::(east|west)_opt$", "None for an offset of a day or more"),
    (r"::(encrypt|decrypt)_padded(_vec|_b2b|_inout|_mut|_vec_mut)?$|BlockMode(Encrypt|Decrypt)>::(encrypt|decrypt)_padded",
     "block-mode padding fails with PadError/UnpadError depending on the length (output buffer shorter than the padded plaintext) or content (invalid padding) of the run-time message"),
    (r"^chrono::Naive(Date|Time)::from_(ymd|hms|hms_milli|hms_micro|hms_nano|yo|num_days_from_ce)_opt$", "None for an out-of-range component"),
]
DATA_DEPENDENT_OK = {
    # (function, callee tail) -> reason the argument is not run-time content
    ("stdlib::parse_apache_log::parse_apache_log", "from_utf8"):
        "the argument is the `format` bytes after they were matched against the literals b\"common\" / b\"combined\" / b\"error\" (any other value hits the arm before)",
    ("datadog::filter::regex::word_regex", "new"):
        "the pattern is regex::escape(input) with the escaped `*` replaced by `.*` between fixed `\\b` anchors: always a valid regex",
    ("datadog::filter::regex::wildcard_regex", "new"):
        "the pattern is regex::escape(input) with the escaped `*` replaced by `.*` between `^` and `$`: always a valid regex",
    ("<stdlib::from_unix_timestamp::FromUnixTimestamp as compiler::function::Function>::compile", "from_str"):
        "the literal was accepted by optional_enum against Unit::all_value() (R04l keeps that an exact equality)",
    ("<stdlib::to_unix_timestamp::ToUnixTimestamp as compiler::function::Function>::compile", "from_str"):
        "the literal was accepted by optional_enum against Unit::all_value() (R04l)",
    ("<stdlib::parse_key_value::ParseKeyValue as compiler::function::Function>::compile", "from_str"):
        "the literal was accepted by optional_enum against Whitespace::all_value() (R04l)",
    ("<stdlib::parse_user_agent::ParseUserAgent as compiler::function::Function>::compile", "from_str"):
        "the literal was accepted by optional_enum against Mode::all_value() (R04l)",
    ("<stdlib::shannon_entropy::ShannonEntropy as compiler::function::Function>::compile", "from_str"):
        "the literal was accepted by optional_enum against the segmentation variants (R04l)",
    ("stdlib::random_float::random_float", "new"):
        "the argument is the result of random_range over a non-empty finite range (R04m), which is a finite float",
    ("parser::lex::Lexer::<'input>::numeric_literal_or_identifier", "new"):
        "the argument is str::parse::<f64> of a string of ASCII digits, `_` removed, and one `.`: never the text \"nan\"",
    ("value::value::serde::<impl std::convert::From<serde_json::Value> for value::value::Value>::from", "new"):
        "the argument is serde_json::Number::as_f64; JSON has no NaN literal and serde_json::Number cannot hold one",
}


def rule_r04j(chk, M):
    import re
    import cfgq
    from cfgq import op_local
    facts = chk.facts
    rid = "R04j"
    chk.rule(rid, "no unwrap/expect directly on the result of a content-dependent fallible library call in resolve- or compile-reachable code (stdlib and the parsing/grok/value modules it reaches)", floor=100)
    pats = [(re.compile(p), why) for p, why in DATA_DEPENDENT]
    seen_all = set()
    for f in M.functions.values():
        roots, seen, par = sr.resolve_reach(facts, M, f)
        seen_all |= set(seen)
    # compile() of every stdlib function and what it reaches: "compiling any source text never panics"
    croots = [f["compile"] for f in M.functions.values() if isinstance(f.get("compile"), str)]
    cseen, _cext, _cpar = facts.reach(croots)
    seen_all |= set(cseen)
    done = set()
    for n in sorted(seen_all):
        if n.startswith("cli::") or n.startswith("<cli::"):
            continue
        b = facts.body(n)
        if b is None or "/build/" in b.file:
            continue
        for bb, t in b.calls():
            cal = b.callee(t)
            if not sr.PANICKY.match(cal):
                continue
            l = op_local(t["args"][0])
            if l is None:
                continue
            last = cfgq.ref_chain(b, l)[-1]
            for x in b.defs().get(last, []):
                if x[0] != "call":
                    continue
                src = b.callee(x[3])
                from facts import flow_sources as _fs

                def _is_const(a):
                    if a.get("k") == "const":
                        return True
                    al = op_local(a)
                    srcs = _fs(b, al) if al is not None else set()
                    return bool(srcs) and all(sc[0] == "const" for sc in srcs)
                const_args = bool(x[3]["args"]) and all(_is_const(a) for a in x[3]["args"])
                key = (n, src, cal.rsplit("::", 1)[1], t["ln"])
                if key in done:
                    continue
                done.add(key)
                why = next((w for p, w in pats if p.search(src)), None)
                base = n.split("::{closure")[0]
                tail = src.rsplit("::", 1)[1]
                exempt = DATA_DEPENDENT_OK.get((base, tail))
                if why and const_args and not exempt:
                    exempt = "every argument of the producer is a compile-time constant"
                d = {"fn": n, "producer": src, "consumer": key[2], "class": "content-dependent" if why else "outside the rule: the producer fails only on an internal invariant or the environment, not on argument content (not decided here)"}
                if exempt:
                    d["reviewed"] = exempt
                ok = (why is None) or bool(exempt)
                chk.instance(rid, d, ok=ok)
                if not ok:
                    chk.violation(rid, b.file, n, "%s().%s()" % (tail, key[2]),
                                  "%s consumes the result of %s with %s: %s, so a run-time argument makes the host panic instead of the call returning an error"
                                  % (n, src, key[2], why), detail=d, loc="%s:%s" % (b.file, t["ln"]))


# R04k --------------------------------------------------------------------------------------------
def rule_r04k(chk):
    import re
    facts = chk.facts
    rid = "R04k"
    chk.rule(rid, "Decimal arithmetic on run-time operands uses checked_* (the operator impls panic on overflow / zero divisor)", floor=3)
    opre = re.compile(r"^<&?rust_decimal::Decimal as std::ops::(Add|Sub|Mul|Div|Rem)(Assign)?(<.*>)?>::(add|sub|mul|div|rem)(_assign)?$"
                      r"|<impl (<.*> )?std::ops::(Add|Sub|Mul|Div|Rem)(Assign)?(<.*>)? for &?('[a-z_]+ )?rust_decimal::Decimal>::(add|sub|mul|div|rem)(_assign)?$")
    okre = re.compile(r"<impl rust_decimal::Decimal>::checked_(add|sub|mul|div|rem)$")
    for i in facts.index:
        n = i["name"]
        if "/build/" in i["file"] or n.startswith("cli::") or not any("Decimal" in c for c in i["callees"]):
            continue
        b = facts.body(n)
        if b is None:
            continue
        for bb, t in b.calls():
            cal = b.callee(t)
            if okre.search(cal):
                chk.instance(rid, {"fn": n, "call": cal.rsplit("::", 1)[1], "at": "%s:%s" % (b.file, t["ln"])}, ok=True)
            elif opre.search(cal):
                if all(a.get("k") == "const" for a in t["args"]):
                    chk.instance(rid, {"fn": n, "call": cal, "constant_operands": True}, ok=True)
                    continue
                d = {"fn": n, "call": cal, "at": "%s:%s" % (b.file, t["ln"])}
                chk.instance(rid, d, ok=False)
                chk.violation(rid, b.file, n, "Decimal operator",
                              "%s applies the panicking operator %s to a run-time Decimal: rust_decimal panics (\"overflowed\", \"Division by zero\") where "
                              "checked_%s returns None" % (n, cal, cal.rsplit("::", 1)[1].replace("_assign", "")), detail=d, loc=d["at"])


# R04l --------------------------------------------------------------------------------------------
ENUM_VALIDATOR = "compiler::function::ArgumentList::optional_enum"
NORMALISERS = r"eq_ignore_ascii_case|to_(ascii_)?(lower|upper)case|make_ascii_(lower|upper)case|::trim(_start|_end|_matches)?$|::starts_with|::ends_with|::strip_(prefix|suffix)|unicase|::to_lowercase|::eq_lossy"


def rule_r04l(chk):
    import re
    facts = chk.facts
    rid = "R04l"
    chk.rule(rid, "enum arguments are validated by exact Value equality with a declared variant", floor=1)
    if not facts.has(ENUM_VALIDATOR):
        chk.fail_closed(rid, "anchor not found: %s" % ENUM_VALIDATOR)
        return
    stop = lambda c: c.endswith("::optional_literal") or not (c.startswith("compiler::function::") or c.startswith("<compiler::function::"))
    seen, ext, par = facts.reach([ENUM_VALIDATOR], stop=stop, cha=False)
    calls = set()
    for n in seen:
        nb = facts.body(n)
        if nb is not None:
            calls |= set((t.get("rfn_full") or t.get("fn_full") or nb.callee(t)) for _bb, t in nb.calls())
    eqs = sorted(c for c in calls if re.search(r"PartialEq.* for &?value::value::Value>::eq$|<value::value::Value as std::cmp::PartialEq>::eq$|contains::<value::value::Value>|<impl \[value::value::Value\]>::contains$", c))
    norm = sorted(c for c in calls if re.search(NORMALISERS, c))
    b = facts.body(ENUM_VALIDATOR)
    d = {"fn": ENUM_VALIDATOR, "bodies": sorted(seen), "value_equality": eqs, "normalising_calls": norm}
    ok = bool(eqs) and not norm
    chk.instance(rid, d, ok=ok)
    if not eqs:
        chk.violation(rid, b.file, ENUM_VALIDATOR, "no Value equality", "optional_enum no longer compares the literal with the declared variants by Value equality; "
                      "stdlib code after an enum argument (`expect(\"validated enum\")`, `unreachable!()`) assumes the value IS one of the variants", detail=d,
                      loc="%s:%s" % (b.file, b.line))
    if norm:
        chk.violation(rid, b.file, ENUM_VALIDATOR, "normalised comparison", "optional_enum accepts a literal after normalising it (%s): a spelling that is not a "
                      "declared variant reaches stdlib code whose `expect(\"validated enum\")` / `unreachable!()` arms then panic at compile time or at run time"
                      % ", ".join(x.rsplit("::", 1)[1] for x in norm), detail=d, loc="%s:%s" % (b.file, b.line))


# R04m --------------------------------------------------------------------------------------------
def rule_r04m(chk):
    import re
    facts = chk.facts
    rid = "R04m"
    chk.rule(rid, "rand::Rng::random_range is called only behind an order test (non-empty range) and, for floats, an is_finite test (finite width)", floor=2)
    pat = re.compile(r"rand::Rng>::(random_range|gen_range)::<(\w+),")
    for i in facts.index:
        n = i["name"]
        if "/build/" in i["file"] or n.startswith("cli::"):
            continue
        b = facts.body(n)
        if b is None:
            continue
        for bb, t in b.calls():
            full = t.get("rfn_full") or t.get("fn_full") or ""
            m = pat.search(full)
            if not m:
                continue
            ety = m.group(2)
            # where is the sampled Range built? here, or in a local helper whose result is passed on (get_range()?)
            from facts import flow_sources, op_local
            sites = []          # (body, block) of each Range construction that can reach the call
            rl = op_local(t["args"][1]) if len(t["args"]) > 1 else None
            srcs = flow_sources(b, rl) if rl is not None else set()
            for sct in srcs:
                if sct[0] == "agg" and "Range" in str(sct[2]):
                    sites.append((b, sct[1]))
                elif sct[0] == "call" and facts.has(sct[2]):
                    hb = facts.body(sct[2])
                    for bi, blk in enumerate(hb.blocks):
                        for st in blk["s"]:
                            if st["rv"]["k"] == "agg" and "Range" in str(st["rv"].get("adt")):
                                sites.append((hb, bi))
            if not sites:
                chk.fail_closed(rid, "%s: cannot find where the range passed to random_range is built; re-derive the rule" % n)
                continue

            def guards(fb, at):
                o = [bi for bi, blk in enumerate(fb.blocks) for st in blk["s"]
                     if st["rv"]["k"] == "binop" and st["rv"]["op"] in ("Lt", "Le", "Gt", "Ge") and st["rv"].get("tya") == ety and fb.dominates(bi, at)]
                f = [cb for cb, ct in fb.calls() if re.search(r"<impl f(32|64)>::is_finite$", (ct.get("rfn_full") or ct.get("fn_full") or fb.callee(ct))) and fb.dominates(cb, at)]
                return o, f
            per = [guards(fb, at) for fb, at in sites]
            # a range built in this function may also be guarded between construction and the call
            if any(fb is b for fb, _ in sites):
                per = [guards(b, bb)]
            order = [1] if all(o for o, _ in per) else []
            finite = [1] if all(f for _, f in per) else []
            need_finite = ety in ("f64", "f32")
            d = {"fn": n, "call": full, "at": "%s:%s" % (b.file, t["ln"]), "element": ety, "range_built_in": sorted(set(fb.name for fb, _ in sites)), "order_test_dominates": bool(order), "is_finite_test_dominates": bool(finite)}
            ok = bool(order) and (bool(finite) or not need_finite)
            chk.instance(rid, d, ok=ok)
            if not order:
                chk.violation(rid, b.file, n, "random_range without order test", "%s samples a range that no dominating comparison shows non-empty: random_range panics "
                              "(\"cannot sample empty range\") when max <= min" % n, detail=d, loc=d["at"])
            elif need_finite and not finite:
                chk.violation(rid, b.file, n, "float random_range without is_finite test", "%s samples a float range with no dominating is_finite test: an infinite bound "
                              "(`to_float!(\"inf\")`) or a width that overflows makes rand's sampler return NonFinite, which random_range unwraps — the host panics" % n,
                              detail=d, loc=d["at"])


# R04n --------------------------------------------------------------------------------------------
def _const_strs_in(body):
    out = []
    for _bb, t in body.calls():
        for a in t["args"]:
            if a.get("k") == "const" and "str" in a:
                out.append(a["str"])
    for blk in body.blocks:
        for st in blk["s"]:
            rv = st["rv"]
            ops = [rv["op"]] if isinstance(rv.get("op"), dict) else []
            ops += rv["ops"] if isinstance(rv.get("ops"), list) else []
            for o in ops:
                if isinstance(o, dict) and o.get("k") == "const" and "str" in o:
                    out.append(o["str"])
    return out


def rule_r04n(chk, M):
    import re
    import trie
    from facts import op_local, flow_sources
    facts = chk.facts
    rid = "R04n"
    chk.rule(rid, "every enum variant accepted by optional_enum has an arm in the panicking literal dispatch that consumes it", floor=4)
    panics = re.compile(r"panicking::(panic|panic_fmt|unreachable_display|panic_display|panic_explicit)$")
    by_file = {}
    for n in facts.names():
        nb = facts.body(n)
        if nb is not None:
            by_file.setdefault(nb.file, []).append(nb)
    for f in M.functions.values():
        comp = f.get("compile")
        cb = facts.body(comp) if isinstance(comp, str) else None
        if cb is None:
            continue
        for bb, t in cb.calls():
            if not cb.callee(t).endswith("ArgumentList::optional_enum") or len(t["args"]) < 3:
                continue
            kw = t["args"][1].get("str")
            vl = op_local(t["args"][2])
            helpers = [sc[2] for sc in (flow_sources(cb, vl) if vl is not None else set()) if sc[0] in ("call", "via") and facts.has(sc[2])]
            W = set()
            for h in helpers:
                W |= set(_const_strs_in(facts.body(h)))
            if not W:
                chk.note(rid, "%s(%s): the variant list is not a literal list (built from an enum type's own table); not decided" % (f["identifier"], kw))
                continue
            files = {cb.file} | {facts.body(h).file for h in helpers}
            found = False
            for fl in sorted(files):
                for nb in by_file.get(fl, []):
                    if not any(panics.search(nb.callee(ct)) for _b, ct in nb.calls()):
                        continue
                    L = trie.literal_dispatch(facts, nb)
                    if not L or not (set(L) & W):
                        continue
                    found = True
                    missing = sorted(W - set(L))
                    d = {"function": f["identifier"], "keyword": kw, "declared_in": helpers, "variants": sorted(W), "dispatch": nb.name, "arms": sorted(L), "missing": missing}
                    chk.instance(rid, d, ok=not missing)
                    if missing:
                        chk.violation(rid, nb.file, nb.name, "%s: no arm for %s" % (kw, ",".join(missing)),
                                      "`%s`: %s accepts %s for `%s`, but the dispatch in %s has no arm for it and ends in unreachable!()/panic: the program compiles and "
                                      "the host panics when the call runs" % (f["identifier"], helpers[0], ", ".join(repr(x) for x in missing), kw, nb.name),
                                      detail=d, loc="%s:%s" % (nb.file, nb.line))
            if not found:
                chk.note(rid, "%s(%s): no panicking literal dispatch over %s found in %s; not decided" % (f["identifier"], kw, sorted(W), sorted(files)))
