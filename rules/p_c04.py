"""C04 — compiling and running never panics the host (six panic classes; everything else undecided)."""
import stdlibrules as sr
import p_c17


def run(chk):
    chk.explanation = (
        "Decides absence of specific classes of panic; it does not prove the ~500 remaining panic-capable sites (indexing, unwrap on internal "
        "invariants, third-party code) safe. R04a: no coercion result on a run-time value is unwrapped in resolve-reachable stdlib code. R04b: no result "
        "of a `dyn Target` call is unwrapped. R04c: every keyword compile() reads is declared (a mismatch is the 'invalid function signature' panic). "
        "R04e: no overflow-capable negation / iN::abs / iN::pow of a run-time signed integer. R04f: no unguarded sign-losing cast feeding a count/index. R04g: no str slice/index bound computed from a character count. R04h: divisors and chunk/window/step sizes are constants or compared against zero. R04i: `regex::Captures` is indexed with the panicking `[]` only at the reviewed sites where the group always takes part in the match (an optional or alternated group makes `caps[i]` panic; `caps.get(i)` is the total API).")
    chk.assumptions += ["builds with overflow checks (the test profile) panic on arithmetic overflow; release builds wrap — the rule treats both as defects"]
    M = sr.function_model(chk.facts)
    sr.rule_coercion_unwrapped(chk, "R04a", M)
    chk.rule("R04b", "results of `dyn Target` calls are never unwrapped/expected", floor=6)
    p_c17.check_sites(chk, "R04b")
    sr.rule_keyword_agreement(chk, "R04c", M)
    sr.rule_negation_overflow(chk, "R04e")
    sr.rule_guarded_casts(chk, "R04f")
    sr.rule_char_count_as_byte_index(chk, "R04g")
    sr.rule_zero_intolerant(chk, "R04h")

    rule_r04i(chk)


CAPTURES_INDEX_OK = {
    "stdlib::parse_duration::parse_duration": "its own static pattern: `value` and `unit` are mandatory named groups",
    "<&stdlib::redact::Redactor as regex::Replacer>::replace_append": "group 0 (the whole match) always participates",
}


def rule_r04i(chk):
    import re
    facts = chk.facts
    rid = "R04i"
    chk.rule(rid, "regex::Captures is indexed with `[]` only at reviewed sites", floor=2)
    for i in facts.index:
        if "/build/" in i["file"] or i["name"].startswith("cli::"):
            continue
        for cal in i["callees"]:
            if re.search(r"^<regex::(bytes::)?Captures<.*> as std::ops::Index<.*>>::index$", cal):
                base = i["name"].split("::{closure")[0]
                d = {"fn": i["name"], "callee": cal, "reviewed": CAPTURES_INDEX_OK.get(base)}
                ok = base in CAPTURES_INDEX_OK
                chk.instance(rid, d, ok=ok)
                if not ok:
                    b = facts.body(i["name"])
                    chk.violation(rid, b.file, i["name"], "Captures indexed with []",
                                  "%s indexes a regex::Captures with `[]`: a named or numbered group that did not take part in the match (optional / "
                                  "alternated groups of a user-supplied pattern) makes this panic; use `.get(i)`" % i["name"], detail=d,
                                  loc="%s:%d" % (b.file, b.line))
