"""C04 — compiling and running never panics the host (six panic classes; everything else undecided)."""
import stdlibrules as sr
import p_c17


def run(chk):
    chk.explanation = (
        "Decides absence of specific classes of panic; it does not prove the ~500 remaining panic-capable sites (indexing, unwrap on internal "
        "invariants, third-party code) safe. R04a: no coercion result on a run-time value is unwrapped in resolve-reachable stdlib code. R04b: no result "
        "of a `dyn Target` call is unwrapped. R04c: every keyword compile() reads is declared (a mismatch is the 'invalid function signature' panic). "
        "R04e: no overflow-capable negation / iN::abs / iN::pow of a run-time signed integer. R04f: no unguarded sign-losing cast feeding a count/index. R04g: no str slice/index bound computed from a character count. R04h: divisors and chunk/window/step sizes are constants or compared against zero.")
    chk.assumptions += ["builds with overflow checks (the test profile) panic on arithmetic overflow; release builds wrap — the rule treats both as defects"]
    M = sr.function_model(chk.facts)
    sr.rule_coercion_unwrapped(chk, "R04a", M)
    chk.rule("R04b", "results of `dyn Target` calls are never unwrapped/expected", floor=6)
    p_c17.check_sites(chk, "R04b")
    sr.rule_keyword_agreement(chk, "R04c", M)
    sr.rule_negation_overflow(chk, "R04e")
    sr.rule_guarded_casts(chk, "R04f")
    sr.rule_char_count_as_byte_index(chk, "R04g")
    sr.rule_zero_intolerant(chk, "R04h")
