"""Small CFG/def-use query helpers shared by the per-property rules."""
from facts import op_local, op_place, proj_fields, variant_map


def single_def(b, l):
    ds = b.defs().get(l, [])
    if len(ds) == 1:
        return ds[0]
    return None


def ref_root(b, local, depth=8):
    """follow `x = &p` / `x = &mut p` / `x = move y` single definitions back to the underlying place;
    returns (root_local, [field names]) or None"""
    fields = []
    l = local
    for _ in range(depth):
        d = single_def(b, l)
        if d is None or d[0] != "stmt":
            break
        rv = d[3]["rv"]
        if d[3]["d"].get("p"):
            break
        if rv["k"] == "ref":
            p = rv["p"]
        elif rv["k"] in ("use", "cast") and op_place(rv["op"]) is not None:
            p = op_place(rv["op"])
        else:
            break
        fields = proj_fields(p) + fields
        l = p["l"]
    return l, fields


def ref_chain(b, local, depth=10):
    """all locals visited by ref_root's walk (including the start)"""
    out = [local]
    l = local
    for _ in range(depth):
        d = single_def(b, l)
        if d is None or d[0] != "stmt" or d[3]["d"].get("p"):
            break
        rv = d[3]["rv"]
        if rv["k"] == "ref":
            p = rv["p"]
        elif rv["k"] in ("use", "cast") and op_place(rv["op"]) is not None:
            p = op_place(rv["op"])
        else:
            break
        l = p["l"]
        out.append(l)
    return out


def calls_to(b, pred):
    return [(bb, t) for bb, t in b.calls() if pred(b.callee(t))]


def push_sites(b, field, root=1):
    """blocks calling Vec::push on `self.<field>`"""
    out = []
    for bb, t in b.calls():
        c = b.callee(t)
        if not (c.startswith("std::vec::Vec::<") and c.endswith(">::push")):
            continue
        l = op_local(t["args"][0])
        if l is None:
            continue
        r = ref_root(b, l)
        if r and r[0] == root and r[1][:1] == [field]:
            out.append((bb, t))
    return out


def discr_switches_on(facts, b, pred):
    """yield (bb, place, adt, {variant: target}, otherwise) for switchInt(discriminant(place)) where pred(place, adt)"""
    defs = b.defs()
    for bi, t in b.iter_terms("switch"):
        l = op_local(t["op"])
        if l is None:
            continue
        ds = defs.get(l, [])
        if len(ds) != 1 or ds[0][0] != "stmt":
            continue
        rv = ds[0][3]["rv"]
        if rv["k"] != "discr" or not rv.get("adt"):
            continue
        if not pred(rv["p"], rv["adt"]):
            continue
        vm = variant_map(facts, rv["adt"])
        tg = {}
        for val, bb in t["targets"]:
            tg[vm.get(val, "#" + val)] = bb
        yield bi, rv["p"], rv["adt"], tg, t["otherwise"]


def bool_switch_after_call(b, call_bb):
    """the call in call_bb returns bool; find the switch consuming it. returns (true_bb, false_bb) or None"""
    t = b.term(call_bb)
    res = t["dest"]["l"]
    aliases = {res}
    # follow plain moves/copies of the bool
    changed = True
    while changed:
        changed = False
        for bi, si, s in b.iter_stmts():
            if s["rv"]["k"] == "use" and op_local(s["rv"]["op"]) in aliases and s["d"]["l"] not in aliases and not s["d"].get("p"):
                aliases.add(s["d"]["l"])
                changed = True
    for bi, sw in b.iter_terms("switch"):
        if op_local(sw["op"]) in aliases and sw.get("ty") == "bool":
            false_bb = None
            for val, tgt in sw["targets"]:
                if val == "0":
                    false_bb = tgt
            true_bb = sw["otherwise"]
            if false_bb is None:
                # switch lists '1'? handle generally
                for val, tgt in sw["targets"]:
                    if val == "1":
                        true_bb = tgt
                        false_bb = sw["otherwise"]
            return true_bb, false_bb
    return None


def reaches(b, starts, goal_blocks, avoid=()):
    r = b.reachable_from_edges(list(starts), avoid=avoid)
    return bool(set(goal_blocks) & r)


def agg_sites(b, adt, variant=None):
    out = []
    for bi, si, s in b.iter_stmts():
        rv = s["rv"]
        if rv["k"] == "agg" and rv.get("adt") == adt and (variant is None or rv.get("variant") == variant):
            out.append((bi, si, s))
    return out


def body_const_strs(body):
    out = []
    def visit(op):
        if isinstance(op, dict):
            if op.get("k") == "const" and "str" in op:
                out.append(op["str"])
    for bi, si, st in body.iter_stmts():
        rv = st["rv"]
        for k in ("op", "a", "b"):
            if k in rv and isinstance(rv[k], dict):
                visit(rv[k])
        for op in rv.get("ops", []):
            visit(op)
    for bi, t in body.iter_terms("call"):
        for a in t["args"]:
            visit(a)
    return out


def derived_const_strs(facts, b, local):
    """string constants a local may derive from, looking through promoted constants"""
    import json
    from facts import flow_sources
    out = []
    for s in flow_sources(b, local):
        if s[0] != "const":
            continue
        try:
            op = json.loads(s[1])
        except ValueError:
            continue
        if "str" in op:
            out.append(op["str"])
        elif "promoted" in op and "item" in op:
            n = "%s::{promoted#%d}" % (op["item"], op["promoted"])
            if facts.has(n):
                out.extend(body_const_strs(facts.body(n)))
    return out


def copies_forward(b, local):
    """locals that receive `local` through plain moves/copies (`x = move y`), including `local` itself"""
    out = {local}
    grew = True
    while grew:
        grew = False
        for bi, si, s in b.iter_stmts():
            if s["rv"]["k"] in ("use", "cast") and not s["d"].get("p") and op_local(s["rv"]["op"]) in out and not op_place(s["rv"]["op"]).get("p") and s["d"]["l"] not in out:
                out.add(s["d"]["l"])
                grew = True
    return out
