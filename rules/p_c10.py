"""C10 — comparisons are consistent; integer equality is exact (operator/sibling agreement)."""
import re
from facts import op_local, op_place
from varflow import VarFlow
import arith

CMP = {"try_gt": ("Gt", "gt"), "try_ge": ("Ge", "ge"), "try_lt": ("Lt", "lt"), "try_le": ("Le", "le")}
CMP_OPS = {"Gt", "Ge", "Lt", "Le", "Eq", "Ne"}
OP_RESOLVE = "<compiler::expression::op::Op as compiler::expression::Expression>::resolve"
OPCODE_TABLE = {"Mul": "try_mul", "Div": "try_div", "Add": "try_add", "Sub": "try_sub", "Eq": "eq_lossy", "Ne": "eq_lossy",
                "Gt": "try_gt", "Ge": "try_ge", "Lt": "try_lt", "Le": "try_le", "Merge": "try_merge", "And": "try_and", "Or": "try_or"}


def run(chk):
    facts = chk.facts
    chk.explanation = (
        "Decides operator/sibling agreement of the comparison methods and exactness of integer equality, not the ordering laws of floats/bytes/timestamps "
        "(library PartialOrd). R10a: in each of try_gt/ge/lt/le every comparison (MIR BinOp or PartialOrd::{gt,ge,lt,le} call) has the method's own kind "
        "with operands (self, rhs) in order, IntToFloat only on the Integer side of mixed states, and the four siblings compare on the same set of "
        "(self variant, rhs variant) states. R10b: Op::resolve dispatches each opcode to its own method (P-VAR on self.opcode) and negates eq_lossy exactly "
        "for `!=`. R10c: with self and rhs both Integer (P-VAR initial assumption) eq_lossy reaches an i64 Eq and no IntToFloat cast, in the method or in "
        "the closures it hands out on that path. Undecided: PartialOrd of NotNan/Bytes/DateTime, structural equality of collections (derived PartialEq).")
    sib_states = {}
    rid = "R10a"
    chk.rule(rid, "try_gt/ge/lt/le: own comparison kind, (self, rhs) order, same accepted variant pairs", floor=24)
    for mname, (bop, meth) in CMP.items():
        name = arith.method(mname)
        if not facts.has(name):
            chk.fail_closed(rid, "anchor not found: %s" % name)
            continue
        b, ops, vf, tup = arith.collect(facts, name)
        cmps = [o for o in ops if o["kind"] == "binop" and o["op"] in CMP_OPS and o["ty"] in ("i64", "f64")]
        calls = [o for o in ops if o["kind"] == "call" and re.search(r"(PartialOrd(<.*>)?>::|cmp::PartialOrd::)(gt|ge|lt|le)$", o["callee"])]
        states = set()
        for o in cmps:
            d = {"method": mname, "op": o["op"], "ty": o["ty"], "line": o["line"], "a": list(o["a"]), "b": list(o["b"])}
            problems = []
            if o["op"] != bop:
                problems.append("operator %s in %s" % (o["op"], mname))
            if o["a"][0] != "self" or o["b"][0] != "rhs":
                problems.append("operand order (%s, %s), expected (self, rhs)" % (o["a"][0], o["b"][0]))
            for side in ("a", "b"):
                if o[side][1] == "Integer" and o["ty"] == "f64" and "IntToFloat" not in o[side][2]:
                    problems.append("integer payload compared as float without cast")
                if o[side][1] == "Float" and "IntToFloat" in o[side][2]:
                    problems.append("float payload cast IntToFloat")
            if o["ty"] == "i64" and (o["a"][1], o["b"][1]) != ("Integer", "Integer"):
                problems.append("i64 comparison on non-integer payloads")
            for st in o["states"]:
                sv, rv = arith.pair_of(st)
                states.add((sv, rv))
                if sv != (o["a"][1],) or rv != (o["b"][1],):
                    problems.append("payloads %s/%s compared in state %s/%s" % (o["a"][1], o["b"][1], sv, rv))
            chk.instance(rid, d, ok=not problems)
            if problems:
                chk.violation(rid, b.file, name, "%s %s at arm %s/%s" % (o["ty"], o["op"], o["a"][1], o["b"][1]),
                              "%s: %s" % (mname, "; ".join(problems[:2])), detail=d, loc="%s:%s" % (b.file, o["line"]))
        for o in calls:
            kind = o["callee"].rsplit("::", 1)[1]
            sides = [a[0] for a in o["args"]]
            d = {"method": mname, "call": o["callee"], "line": o["line"], "args": [list(a) for a in o["args"]]}
            problems = []
            if kind != meth:
                problems.append("calls PartialOrd::%s in %s" % (kind, mname))
            if sides[:1] != ["self"]:
                problems.append("first operand is not derived from self")
            if len(sides) > 1 and sides[1] == "self":
                problems.append("second operand derived from self")
            for st in o["states"]:
                states.add(arith.pair_of(st))
            chk.instance(rid, d, ok=not problems)
            if problems:
                chk.violation(rid, b.file, name, "PartialOrd::%s call" % kind, "%s: %s" % (mname, "; ".join(problems[:2])), detail=d,
                              loc="%s:%s" % (b.file, o["line"]))
        sib_states[mname] = states
        if not cmps and not calls:
            chk.fail_closed(rid, "%s: no comparison found" % mname)
    if len(sib_states) == 4:
        ref = sib_states["try_gt"]
        for mname, st in sib_states.items():
            d = {"method": mname, "compared_states": sorted(map(str, st))}
            ok = st == ref
            chk.instance(rid, d, ok=ok)
            if not ok:
                b = facts.body(arith.method(mname))
                chk.violation(rid, b.file, arith.method(mname), "sibling disagreement with try_gt",
                              "%s compares on a different set of (self, rhs) variant pairs than try_gt: %s" % (mname, sorted(map(str, st ^ ref))[:3]), detail=d)

    # ---- R10b opcode dispatch
    rid = "R10b"
    chk.rule(rid, "Op::resolve dispatches every opcode to its own VrlValueArithmetic method; `!=` negates eq_lossy, `==` does not", floor=13)
    b = chk.anchor(OP_RESOLVE, rid)
    if b is not None:
        vf = VarFlow(facts, b)
        opkey = vf.key({"l": 1, "p": ["*", {"f": "opcode", "ty": ""}]})
        seen = {}

        def on_term(bb, t, st):
            if t["k"] != "call":
                return
            m = re.match(r"^<value::value::Value as compiler::value::arithmetic::VrlValueArithmetic>::(\w+)$", b.callee(t))
            if not m:
                return
            ops = st.get(opkey)
            rec = seen.setdefault(bb, {"method": m.group(1), "opcodes": set(), "line": t["ln"], "dest": t["dest"]["l"]})
            rec["opcodes"] |= set(ops) if ops is not None else {"<any>"}
        vf.run(on_term=on_term)
        covered = set()
        for bb, rec in seen.items():
            d = {"fn": OP_RESOLVE, "line": rec["line"], "method": rec["method"], "opcodes": sorted(rec["opcodes"])}
            ok = all(OPCODE_TABLE.get(oc) == rec["method"] for oc in rec["opcodes"]) and bool(rec["opcodes"])
            covered |= rec["opcodes"]
            # negation discipline for eq_lossy
            if rec["method"] == "eq_lossy":
                negated = False
                from facts import uses_of
                import cfgq
                for al in cfgq.copies_forward(b, rec["dest"]):
                    for kind, ubb, si, x in uses_of(b, al):
                        if kind == "stmt" and x["rv"]["k"] == "unop" and x["rv"]["op"] == "Not":
                            negated = True
                d["negated"] = negated
                if rec["opcodes"] == {"Ne"} and not negated:
                    ok = False
                if rec["opcodes"] == {"Eq"} and negated:
                    ok = False
            chk.instance(rid, d, ok=ok)
            if not ok:
                chk.violation(rid, b.file, OP_RESOLVE, "opcode %s -> %s" % ("/".join(sorted(rec["opcodes"])), rec["method"]),
                              "Op::resolve evaluates opcode(s) %s with %s%s" % (sorted(rec["opcodes"]), rec["method"],
                                                                                 " (negation wrong)" if rec["method"] == "eq_lossy" else ""),
                              detail=d, loc="%s:%s" % (b.file, rec["line"]))
        missing = set(OPCODE_TABLE) - covered - {"Or", "And"}
        d = {"opcodes_dispatched": sorted(covered), "missing": sorted(missing)}
        chk.instance(rid, d, ok=not missing)
        if missing:
            chk.violation(rid, b.file, OP_RESOLVE, "opcode without dispatch: %s" % sorted(missing)[0],
                          "Op::resolve has no VrlValueArithmetic call for opcode(s) %s" % sorted(missing), detail=d)

    float_equality_exact(chk, "R10d")
    rid = "R10e"
    chk.rule(rid, "comparison/equality methods use the IEEE partial order, never a total order (total_cmp distinguishes -0.0 from 0.0)", floor=5)
    for mname in ("try_gt", "try_ge", "try_lt", "try_le", "eq_lossy"):
        mn = arith.method(mname)
        if not facts.has(mn):
            chk.fail_closed(rid, "anchor not found: %s" % mn)
            continue
        fam_ = facts.family(mn)
        tot = [(x, c) for x in fam_ for c in facts.callees(x) if re.search(r"::total_cmp$", c)]
        d = {"method": mname, "total_order_calls": [c for x, c in tot]}
        chk.instance(rid, d, ok=not tot)
        for x, c in tot:
            xb = facts.body(x)
            chk.violation(rid, xb.file, mn, "%s uses %s" % (mname, c.rsplit("::", 1)[-1]),
                          "%s compares floats with %s: the total order puts -0.0 below 0.0 and orders NaNs, so `-0.0 < 0.0` becomes true and `<=`/`>=` disagree "
                          "with `==`" % (mname, c), detail=d)

    # ---- R10c integer exactness
    rid = "R10c"
    chk.rule(rid, "eq_lossy under (Integer, Integer): reaches an i64 Eq, never an IntToFloat cast (incl. closures handed out on that path)", floor=2)
    name = arith.method("eq_lossy")
    if not facts.has(name):
        chk.fail_closed(rid, "anchor not found: %s" % name)
        return
    init = {"(*_1)": frozenset(["Integer"]), "(*_2)": frozenset(["Integer"])}
    b, ops, vf, tup = arith.collect(facts, name, init=init)
    i64_eq = [o for o in ops if (o["kind"] == "binop" and o["op"] == "Eq" and o["ty"] == "i64") or
              (o["kind"] == "call" and o["callee"].endswith("::eq") and "PartialEq" in o["callee"]
               and re.search(r"PartialEq(<&?i64>)? for &?i64>::eq$|<&?i64 as std::cmp::PartialEq(<&?i64>)?>::eq$", o.get("full") or ""))]
    casts = [o for o in ops if o["kind"] == "cast" and o["ck"] == "IntToFloat"]
    # closures constructed on reachable paths
    reached_closures = []
    reach_blocks = set(vf.in_states.keys())
    for bi, si, s in b.iter_stmts():
        if bi in reach_blocks and s["rv"]["k"] == "agg" and s["rv"].get("closure"):
            reached_closures.append(s["rv"]["closure"])
    # calls to conversion helpers on that path
    conv_calls = [o for o in ops if o["kind"] == "call" and re.search(r"try_into_f64|try_float|as f64", o["callee"])]
    closure_casts = []
    for cn in reached_closures:
        cb = facts.body(cn)
        for bi, si, s in cb.iter_stmts():
            if s["rv"]["k"] == "cast" and s["rv"]["ck"] == "IntToFloat":
                closure_casts.append((cn, s.get("ln")))
    d = {"i64_Eq_sites": [o["line"] for o in i64_eq], "IntToFloat_in_body": [o["line"] for o in casts],
         "closures_on_path": reached_closures, "IntToFloat_in_those_closures": closure_casts, "f64_conversions_called": [o["callee"] for o in conv_calls]}
    ok1 = bool(i64_eq)
    chk.instance(rid, {"clause": "i64 Eq reachable", **d}, ok=ok1)
    if not ok1:
        chk.violation(rid, b.file, name, "no exact i64 comparison", "eq_lossy on two integers never compares them as i64", detail=d)
    ok2 = not casts and not closure_casts and not conv_calls
    chk.instance(rid, {"clause": "no float conversion", **d}, ok=ok2)
    if not ok2:
        chk.violation(rid, b.file, name, "integers compared through f64",
                      "eq_lossy on two integers converts them to f64 (%s): integers above 2^53 that differ compare equal"
                      % (casts and "cast at line %s" % casts[0]["line"] or closure_casts and "closure %s" % closure_casts[0][0] or conv_calls[0]["callee"]),
                      detail=d)


def float_equality_exact(chk, rid):
    """R10d: in eq_lossy (and the closures it builds) floats are compared with one exact f64 `Eq`, nothing else"""
    facts = chk.facts
    chk.rule(rid, "eq_lossy compares floats with a single exact f64 Eq (no arithmetic, ordering or helper call on the operands)", floor=2)
    name = arith.method("eq_lossy")
    for bn in facts.family(name):
        b = facts.body(bn)
        fops = [(s["rv"]["op"], s.get("ln")) for bi, si, s in b.iter_stmts() if s["rv"]["k"] == "binop" and s["rv"]["tya"] == "f64"]
        local_calls = [b.callee(t) for bb, t in b.calls() if t.get("rlocal") and not b.callee(t).endswith("try_into_f64")
                       and "::{closure" not in b.callee(t)]
        float_calls = [b.callee(t) for bb, t in b.calls() if re.search(r"f64>::|::<impl f64>::|std::f64::", b.callee(t))]
        if bn != name and not fops and not local_calls and not float_calls:
            d = {"body": bn, "f64_ops": fops}
            chk.instance(rid, d, ok=False)
            chk.violation(rid, b.file, bn, "closure without f64 Eq", "a comparison closure of eq_lossy no longer performs an exact f64 equality", detail=d)
            continue
        d = {"body": bn, "f64_ops": fops, "local_helper_calls": local_calls, "f64_method_calls": float_calls}
        bad = [o for o in fops if o[0] != "Eq"] or local_calls or float_calls
        if bn == name and not fops and not bad:
            continue
        chk.instance(rid, d, ok=not bad)
        if bad:
            chk.violation(rid, b.file, bn, "inexact float equality",
                          "eq_lossy compares floats through %s instead of one exact f64 `==`: equality stops being consistent with `<`/`>` "
                          "(e.g. distinct floats closer than an epsilon, or equal infinities)" % (bad[0] if isinstance(bad, list) else bad), detail=d)
