"""C11 — arithmetic follows the documented numeric semantics (structural clauses R11a–R11e)."""
import re
import arith

EXPECT = {  # method -> (float BinOp kind, wrapping callee suffix)
    "try_add": ("Add", "wrapping_add"),
    "try_sub": ("Sub", "wrapping_sub"),
    "try_mul": ("Mul", "wrapping_mul"),
    "try_div": ("Div", None),
    "try_rem": ("Rem", "wrapping_rem"),
}
ARITH_OPS = {"Add", "Sub", "Mul", "Div", "Rem", "AddWithOverflow", "SubWithOverflow", "MulWithOverflow", "AddUnchecked", "SubUnchecked", "MulUnchecked"}
FLOAT_RESULT = "compiler::value::arithmetic::float_result"


def run(chk):
    facts = chk.facts
    chk.explanation = (
        "Decides the operator/operand agreement of the five arithmetic methods, not IEEE results. Using P-VAR keyed on the (self, rhs) variant pair: "
        "R11a the (Integer, Integer) state of try_add/sub/mul/rem reaches exactly the matching i64::wrapping_* call with (self, rhs) operand order and "
        "no i64 arithmetic BinOp or overflow Assert exists in these bodies; R11b every f64 BinOp in method M has M's own kind, first operand from self, "
        "second from rhs, and an IntToFloat cast is applied exactly to the Integer side of mixed states; R11c every f64 arithmetic result flows into "
        "float_result (NotNan::new), and no NotNan::new_unchecked/unchecked_new call exists crate-wide; R11d in try_div/try_rem every Div/Rem (and "
        "wrapping_rem) is only reachable in states where the divisor passed the integer !=0 switch resp. the float ==0.0 test on its false edge; "
        "R11e the string-repeat count passes the `< 0 => 0` guard before the i64->usize cast. Undecided: IEEE arithmetic itself, `mod`.")
    chk.assumptions += ["the operator implementations are the VrlValueArithmetic methods Op::resolve dispatches to (checked by C10's opcode table)"]

    for mname, (fop, wrap) in EXPECT.items():
        name = arith.method(mname)
        if not facts.has(name):
            chk.fail_closed("R11a", "anchor not found: %s" % name)
            continue
        b, ops, vf, tup = arith.collect(facts, name)
        binops = [o for o in ops if o["kind"] == "binop" and o["op"] in ARITH_OPS]

        rid = "R11a"
        chk.rule(rid, "(Integer, Integer) => the matching i64::wrapping_* with (self, rhs); no checked/plain i64 arithmetic, no overflow Assert", floor=8)
        int_arith = [o for o in binops if o["ty"] in ("i64", "isize", "i32")]
        ov_asserts = [o for o in ops if o["kind"] == "assert" and (o.get("msg") or "").startswith("Overflow")]
        d = {"method": mname, "i64_arithmetic_binops": [(o["op"], o["line"]) for o in int_arith], "overflow_asserts": [o["line"] for o in ov_asserts]}
        ov_asserts = ov_asserts if int_arith else []   # an overflow Assert always accompanies a *WithOverflow BinOp; only i64 ones matter here
        ok = not int_arith
        chk.instance(rid, d, ok=ok)
        if not ok:
            o = (int_arith + ov_asserts)[0]
            chk.violation(rid, b.file, name, "non-wrapping integer arithmetic in %s" % mname,
                          "%s performs i64 arithmetic that is not a wrapping_* call (line %s): integer overflow no longer wraps (panics in checked builds)"
                          % (mname, o["line"]), detail=d, loc="%s:%s" % (b.file, o["line"]))
        # integer helper calls: only the method's own wrapping_* (none at all in try_div)
        int_calls = [o for o in ops if o["kind"] == "call" and re.search(r"core::num::<impl i(64|32|size|128)>::\w+$", o["callee"])]
        stray = [o for o in int_calls if not (wrap and o["callee"].endswith("::" + wrap))]
        d = {"method": mname, "integer_helper_calls": [(o["callee"].rsplit("::", 1)[1], o["line"]) for o in int_calls]}
        chk.instance(rid, d, ok=not stray)
        for o in stray:
            chk.violation(rid, b.file, name, "integer helper %s in %s" % (o["callee"].rsplit("::", 1)[1], mname),
                          "%s computes part of its result with %s (line %s): `%s` on two integers must be %s" % (
                              mname, o["callee"].rsplit("::", 1)[1], o["line"], {"try_div": "/"}.get(mname, mname[4:]),
                              "the float division of the converted operands" if mname == "try_div" else "i64::%s(self, rhs)" % wrap),
                          detail=d, loc="%s:%s" % (b.file, o["line"]))
        # IntToFloat only applied to an operand's own integer payload
        for o in ops:
            if o["kind"] == "cast" and o["ck"] == "IntToFloat":
                okc = o["a"][0] in ("self", "rhs") and o["a"][1] == "Integer" and not o["a"][2]
                dd = {"method": mname, "line": o["line"], "operand": list(o["a"])}
                chk.instance(rid, dd, ok=okc)
                if not okc:
                    chk.violation(rid, b.file, name, "IntToFloat of a computed value",
                                  "%s converts %s to f64 (line %s) instead of an operand's integer payload: mixed/÷ arithmetic must equal the float "
                                  "operation on the converted integer" % (mname, o["a"][0], o["line"]), detail=dd, loc="%s:%s" % (b.file, o["line"]))
        if wrap:
            calls = [o for o in ops if o["kind"] == "call" and re.search(r"::wrapping_(add|sub|mul|rem|div)$", o["callee"])]
            good = [o for o in calls if o["callee"].endswith("::" + wrap)]
            d = {"method": mname, "wrapping_calls": [(o["callee"].rsplit("::", 1)[1], o["line"], [a[0] for a in o["args"]]) for o in calls]}
            ok = bool(good) and len(calls) == len(good)
            for o in good:
                sides = [a[0] for a in o["args"]]
                vars_ = [a[1] for a in o["args"]]
                if sides != ["self", "rhs"] or vars_ != ["Integer", "Integer"]:
                    ok = False
                for st in o["states"]:
                    if arith.pair_of(st) != (("Integer",), ("Integer",)):
                        ok = False
            chk.instance(rid, d, ok=ok)
            if not ok:
                chk.violation(rid, b.file, name, "Integer×Integer leaf of %s" % mname,
                              "the (Integer, Integer) case of %s does not compute i64::%s(self, rhs)" % (mname, wrap), detail=d)

        rid = "R11b"
        chk.rule(rid, "f64 BinOps have the method's own kind, operands (self, rhs) in order, IntToFloat exactly on the Integer side", floor=15)
        fl = [o for o in binops if o["ty"] == "f64"]
        for o in fl:
            d = {"method": mname, "op": o["op"], "line": o["line"], "a": list(o["a"]), "b": list(o["b"]), "states": [arith.pair_of(s) for s in o["states"]][:3]}
            problems = []
            if o["op"] != fop:
                problems.append("operator %s in %s" % (o["op"], mname))
            if o["a"][0] != "self" or o["b"][0] != "rhs":
                problems.append("operand order is (%s, %s), expected (self, rhs)" % (o["a"][0], o["b"][0]))
            for side in ("a", "b"):
                var, casts = o[side][1], o[side][2]
                if var == "Integer" and "IntToFloat" not in casts:
                    problems.append("integer operand used without IntToFloat")
                if var == "Float" and "IntToFloat" in casts:
                    problems.append("float operand cast with IntToFloat")
            for st in o["states"]:
                sv, rv = arith.pair_of(st)
                if sv != (o["a"][1],) or rv != (o["b"][1],):
                    problems.append("operation on %s/%s payloads reachable in state %s/%s" % (o["a"][1], o["b"][1], sv, rv))
            chk.instance(rid, d, ok=not problems)
            if problems:
                chk.violation(rid, b.file, name, "f64 %s at arm %s/%s" % (o["op"], o["a"][1], o["b"][1]),
                              "%s: %s" % (mname, "; ".join(problems[:2])), detail=d, loc="%s:%s" % (b.file, o["line"]))

        rid = "R11c"
        chk.rule(rid, "every f64 arithmetic result flows into float_result (NotNan::new); no unchecked NotNan constructor crate-wide", floor=15)
        fr_calls = [bb for bb, t in b.calls() if b.callee(t) == FLOAT_RESULT]
        fr_args = set()
        for bb, t in b.calls():
            if b.callee(t) == FLOAT_RESULT:
                from facts import op_local
                fr_args.add(op_local(t["args"][0]))
        # a result may be bound to a named local first (`let sum = a + b; float_result(sum)`): close over plain moves/copies
        grew = True
        while grew:
            grew = False
            for bi, si, s in b.iter_stmts():
                if s["rv"]["k"] == "use" and not s["d"].get("p") and s["d"]["l"] in fr_args:
                    from facts import op_local as _ol
                    src = _ol(s["rv"]["op"])
                    if src is not None and src not in fr_args:
                        fr_args.add(src)
                        grew = True
        for o in fl:
            ok = o["dest"] in fr_args
            d = {"method": mname, "op": o["op"], "line": o["line"], "flows_into_float_result": ok}
            chk.instance(rid, d, ok=ok)
            if not ok:
                chk.violation(rid, b.file, name, "f64 %s result bypasses float_result" % o["op"],
                              "a float result of %s (line %s) is not passed to float_result: a NaN result would not raise an error" % (mname, o["line"]),
                              detail=d, loc="%s:%s" % (b.file, o["line"]))

        if mname in ("try_div", "try_rem"):
            rid = "R11d"
            chk.rule(rid, "Div/Rem only reachable after the divisor's zero tests (integer switch !=0 / float ==0.0 false edge)", floor=8)
            # bool locals that hold `rhs_float == 0.0`
            feq0 = set()
            for o in ops:
                if o["kind"] == "binop" and o["op"] == "Eq" and o["ty"] == "f64":
                    c = o["b_const"] or o["a_const"]
                    other = o["a"] if o["b_const"] else o["b"]
                    if c is not None and c.get("float") in ("0.0", "-0.0") and other[0] == "rhs":
                        feq0.add("_%d" % o["dest"])
            sites = [o for o in binops if o["op"] in ("Div", "Rem")] + \
                    [o for o in ops if o["kind"] == "call" and re.search(r"::wrapping_(rem|div)$", o["callee"])]
            for o in sites:
                problems = []
                for st in o["states"]:
                    sv, rv = arith.pair_of(st)
                    if rv == ("Integer",):
                        if "0" not in st.get("rhs as Integer.0 !=", []):
                            problems.append("integer divisor not tested against 0")
                    elif rv == ("Float",):
                        if not any(st.get(bk) == ["false"] for bk in feq0):
                            problems.append("float divisor not tested against 0.0")
                    else:
                        problems.append("divisor variant unknown (%s)" % (rv,))
                d = {"method": mname, "site": o.get("op") or o.get("callee"), "line": o["line"], "states": [arith.pair_of(s) for s in o["states"]][:3]}
                chk.instance(rid, d, ok=not problems)
                if problems:
                    chk.violation(rid, b.file, name, "%s reachable with unchecked divisor" % (o.get("op") or "wrapping_rem"),
                                  "%s: %s (line %s): division by zero no longer fails with DivideByZero" % (mname, problems[0], o["line"]), detail=d,
                                  loc="%s:%s" % (b.file, o["line"]))

    # crate-wide: no unchecked NotNan constructors
    rid = "R11c"
    bad = []
    for i in facts.index:
        for c in i["callees"]:
            if re.search(r"NotNan::<.*>::(new_unchecked|unchecked_new)$|NotNan::(new_unchecked|unchecked_new)$", c):
                bad.append((i["name"], c))
    d = {"unchecked_NotNan_constructors": bad}
    chk.instance(rid, d, ok=not bad)
    for n, c in bad:
        nb = facts.body(n)
        chk.violation(rid, nb.file, n, "unchecked NotNan constructor", "%s calls %s: a NaN can enter a Value::Float" % (n, c), detail=d)

    from common import run_witness
    run_witness(chk, "R11w", "Value::Float cannot hold a bare f64 (E0308): NaN is unrepresentable")

    # R11e: string repeat count guard
    rid = "R11e"
    chk.rule(rid, "string repeat: the i64 count is compared `< 0` and only the non-negative edge casts to usize", floor=1)
    name = arith.method("try_mul")
    for cn in facts.closures_of(name):
        cb = facts.body(cn)
        casts = [(bi, s) for bi, si, s in cb.iter_stmts() if s["rv"]["k"] == "cast" and s["rv"]["ck"] == "IntToInt" and s["rv"]["from"] == "i64" and s["rv"]["to"] == "usize"]
        if not casts:
            continue
        lts = [(bi, s) for bi, si, s in cb.iter_stmts() if s["rv"]["k"] == "binop" and s["rv"]["op"] in ("Lt", "Le", "Ge", "Gt") and s["rv"]["tya"] == "i64"]
        ok = False
        for cbi, cs in casts:
            for lbi, ls in lts:
                if cb.dominates(lbi, cbi) and lbi != cbi:
                    ok = True
        d = {"closure": cn, "casts": len(casts), "sign_tests": len(lts)}
        chk.instance(rid, d, ok=ok)
        if not ok:
            chk.violation(rid, cb.file, cn, "repeat count cast without sign test",
                          "`string * n`: the count is cast to usize without the `n < 0 => 0` guard (a negative count becomes a huge repetition)", detail=d)
