"""C07 — `abort` terminates the program and cannot be intercepted (clauses R07a, R07b)."""
from facts import op_place, flow_sources
from varflow import VarFlow
import absorb

RUNTIME_RESOLVE = "compiler::runtime::Runtime::resolve"
PROGRAM_RESOLVE = "compiler::program::Program::resolve"
TERMINATE = "compiler::runtime::Terminate"


def terminate_mapping(chk, rid):
    """R07b/R06b helper: which ExpressionError variants of the program result reach which outcome
    constructor in Runtime::resolve. Returns {outcome: set(variants)} or None."""
    b = chk.anchor(RUNTIME_RESOLVE, rid)
    if b is None:
        return None
    src_calls = [bb for bb, t in b.calls() if b.callee(t) == PROGRAM_RESOLVE]
    if not src_calls:
        chk.fail_closed(rid, "Runtime::resolve no longer calls Program::resolve")
        return None
    extra = [i for i, l in enumerate(b.locals) if absorb.byval_embeds(l["ty"])]
    vf = VarFlow(chk.facts, b, extra_locals=extra)
    out = {}

    def from_program(local):
        return any(s[0] == "call" and s[2] == PROGRAM_RESOLVE for s in flow_sources(b, local))

    def on_stmt(bb, si, s, st):
        rv = s["rv"]
        if rv["k"] != "agg":
            return
        if rv.get("adt") == TERMINATE:
            p = op_place(rv["ops"][0])
            if p is None or not from_program(p["l"]):
                return
            v = st.get(vf.key(p))
            vs = set(absorb.EE_VARIANTS) if v is None else set(v) - {"MOVED"}
            out.setdefault("Terminate::" + rv["variant"], set()).update(vs)
        elif rv.get("adt") == "std::result::Result" and rv.get("variant") == "Ok" and s["d"]["l"] == 0:
            p = op_place(rv["ops"][0])
            if p is None:
                return
            # which Return payload reaches Ok?
            for src in flow_sources(b, p["l"]):
                pass
            out.setdefault("Ok", set())

    vf.run(on_stmt=on_stmt)
    # Return -> Ok(value): a move out of (<program result> as Err).0 as Return).value
    for bi, si, s in b.iter_stmts():
        rv = s["rv"]
        if rv["k"] == "use":
            p = op_place(rv["op"])
            if p is not None and from_program(p["l"]):
                names = [e.get("v") or e.get("f") for e in p.get("p", []) if isinstance(e, dict)]
                if names[-4:] == ["Err", "0", "Return", "value"]:
                    out.setdefault("Ok", set()).add("Return")
    return out


def run(chk):
    chk.explanation = (
        "Decides the error-absorption discipline for ExpressionError::Abort (clauses R07a, R07b of DESIGN.md §4 C07), "
        "not the behaviour of `abort` on all programs. R07a: P-VAR abstract interpretation (drop flags, discriminant "
        "tests) of every non-test MIR body that owns an ExpressionError finds each feasible point where an "
        "expression-originated error stops existing without being returned; none may still be able to hold Abort. "
        "R07b: Runtime::resolve maps Abort (and only Abort/Fallible/Missing) to Terminate::Abort. R07c: inside the resolve of every compiler "
        "expression no child is evaluated in a P-VAR state where an earlier child's Result may be Err (so nothing of the same expression runs after an "
        "abort). Undecided: effects of other expressions beyond `?` propagation, message contents.")
    chk.assumptions += [
        "every way an ExpressionError value can cease to exist in safe Rust is a Drop terminator, a move into a callee, or "
        "a move into the return place; external callees receiving one by value are restricted to the reviewed PASS_ON/ABSORBING tables (anything else fails closed)",
        "an error is 'expression-originated' when it derives from a resolve-family call, a generic Fn call, a local function that "
        "transitively contains one, or is the parameter of a closure/function (conservative)",
        "unwind (panic) paths are not exits for this rule (C04's subject)",
    ]
    absorb.check_absorb(chk, "R07a", "Abort", "abort can be intercepted")
    rid = "R07b"
    chk.rule(rid, "Runtime::resolve: Abort reaches Terminate::Abort; Terminate::Error and Ok never receive Abort", floor=2)
    m = terminate_mapping(chk, rid)
    if m is not None:
        ab = m.get("Terminate::Abort", set())
        er = m.get("Terminate::Error", set())
        d1 = {"fn": RUNTIME_RESOLVE, "outcome": "Terminate::Abort", "variants": sorted(ab)}
        if "Abort" in ab and "Return" not in ab and "Error" not in ab:
            chk.instance(rid, d1, ok=True)
        else:
            chk.instance(rid, d1, ok=False)
            chk.violation(rid, "src/compiler/runtime.rs", RUNTIME_RESOLVE, "Terminate::Abort mapping",
                          "ExpressionError::Abort from the program does not (only) map to Terminate::Abort: %s" % sorted(ab), detail=d1)
        d2 = {"fn": RUNTIME_RESOLVE, "outcome": "Terminate::Error", "variants": sorted(er)}
        if "Abort" in er or "Return" in er or not er:
            chk.instance(rid, d2, ok=False)
            chk.violation(rid, "src/compiler/runtime.rs", RUNTIME_RESOLVE, "Terminate::Error mapping",
                          "Terminate::Error receives %s" % sorted(er), detail=d2)
        else:
            chk.instance(rid, d2, ok=True)


def _siblings(chk):
    import siblings
    siblings.rule_sibling_evaluation(chk, "R07c", "aborted")
    siblings.rule_iteration_stops(chk, "R07d", "aborted")
