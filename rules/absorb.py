"""R06a / R07a: error-absorption discipline for the control-flow variants of ExpressionError.

An *absorb site* is a feasible point in non-test code where a by-value ExpressionError (or a type
embedding one: Result<_, EE>, Option<EE>, ValueError::Or) that may originate from evaluating an
expression stops existing without being returned unchanged:
   * a non-unwind Drop terminator of such a place that is feasible under P-VAR (drop flags and
     discriminant tests are interpreted, so the "open drop" ladders rustc emits are resolved);
   * a call of an absorbing std combinator instantiated at E = EE (ok, unwrap_or*, is_ok, ...);
   * a move into any external callee that is not in the reviewed pass-on table (fail closed).
At each site the variant set of the absorbed value is computed; the site violates C07 when the set
contains `Abort` and C06 when it contains `Return`.
"""
import re
from facts import op_place, op_local, proj_str, flow_sources
from varflow import VarFlow, MOVED

EE = "compiler::expression_error::ExpressionError"
VE = "compiler::value::error::ValueError"
EE_VARIANTS = frozenset(["Abort", "Return", "Error", "Fallible", "Missing"])

RESOLVE_DECLS = (
    "compiler::expression::Expression::resolve",
    "compiler::expression::function::FunctionExpression::resolve",
)
RESOLVE_RE = re.compile(r"^<.* as compiler::expression::(function::Function)?Expression>::resolve$")

# external callees that may receive an EE-embedding value by move and hand it on unchanged (to
# their result or to a closure that is itself analysed). Reviewed one by one.
PASS_ON = {
    "<std::result::Result<T, E> as std::ops::Try>::branch": "`?`: Err is re-emitted through from_residual",
    "<std::result::Result<T, F> as std::ops::FromResidual<std::result::Result<std::convert::Infallible, E>>>::from_residual":
        "`?`: converts with From (identity for EE; From<ValueError> is analysed as its own body)",
    "std::option::Option::<std::result::Result<T, E>>::transpose": "structure swap, error kept",
    "std::result::Result::<std::option::Option<T>, E>::transpose": "structure swap, error kept",
    "std::result::Result::<T, E>::map": "maps Ok only",
    "std::result::Result::<T, E>::map_err": "error is handed to the closure/fn, which is analysed itself",
    "std::result::Result::<T, E>::and_then": "Err is returned unchanged",
    "std::result::Result::<T, E>::or_else": "error is handed to the closure, which is analysed itself",
    "std::boxed::Box::<T>::new": "boxing keeps the value",
    "core::bool::<impl bool>::then_some": "value kept or dropped with the bool; only used on Ok values in compile paths",
    "std::option::Option::<T>::map_or": "closure analysed itself",
    "std::option::Option::<T>::map": "closure analysed itself",
    "nom::branch::alt": "parser combinator construction (decode_mime_q), no evaluation result involved",
    "nom::combinator::success": "parser combinator construction (decode_mime_q)",
    "<T as std::convert::Into<U>>::into": "From impl analysed as its own body when local",
    "std::result::Result::<T, E>::Ok": "constructor",
    "std::result::Result::<T, E>::Err": "constructor",
    "std::option::Option::<T>::Some": "constructor",
    "std::iter::Iterator::collect": "collect::<Result<..>> short-circuits and returns the first Err unchanged",
    "std::hint::must_use": "identity",
}

ABSORBING = re.compile(
    r"^std::(result::Result::<T, E>|option::Option::<T>)::"
    r"(ok|err|or|unwrap_or|unwrap_or_else|unwrap_or_default|map_or|map_or_else|is_ok|is_err|is_ok_and|is_err_and|"
    r"is_some|is_none|unwrap|expect|unwrap_err|expect_err|and|iter|into_iter|flatten|unwrap_unchecked|is_some_and|"
    r"ok_or|ok_or_else|xor|zip|filter|inspect|inspect_err|copied|cloned)$")


def byval_embeds(ty):
    """does a value of this type own an ExpressionError (directly or via Result/Option/ValueError)?"""
    if ty.startswith("&") or ty.startswith("*") or ty.startswith("{closure") or ty.startswith("fn(") \
            or ty.startswith("unsafe fn(") or ty.startswith("impl ") or ty.startswith("dyn "):
        return False
    if ty.startswith("std::boxed::Box<dyn") or ty.startswith("std::boxed::Box<{closure"):
        return False
    return (EE in ty) or (VE in ty)


def ee_part(vf, st, place, ty):
    """set of EE variants that may be live inside `place` (of type ty) in abstract state st"""
    key = vf.key(place)

    def get(k):
        return st.get(k)

    def live(v, default):
        if v is None:
            return set(default)
        return set(v) - {MOVED}

    if ty == EE:
        return live(get(key), EE_VARIANTS)
    if ty == VE:
        v = get(key)
        if v is not None and "Or" not in v:
            return set()
        return live(get(key + " as Or.0"), EE_VARIANTS)
    m = re.match(r"^std::result::Result<(.*), (compiler::expression_error::ExpressionError|compiler::value::error::ValueError)>$", ty)
    if m:
        v = get(key)
        if v is not None and "Err" not in v:
            return set()
        inner = key + " as Err.0"
        if m.group(2) == EE:
            return live(get(inner), EE_VARIANTS)
        vv = get(inner)
        if vv is not None and "Or" not in vv:
            return set()
        return live(get(inner + " as Or.0"), EE_VARIANTS)
    m = re.match(r"^std::option::Option<(compiler::expression_error::ExpressionError)>$", ty)
    if m:
        v = get(key)
        if v is not None and "Some" not in v:
            return set()
        return live(get(key + " as Some.0"), EE_VARIANTS)
    v = get(key)
    if v is not None and set(v) <= {MOVED}:
        return set()
    return set(EE_VARIANTS)


def place_type(body, p):
    if not p.get("p"):
        return body.local_ty(p["l"])
    last = None
    for e in p["p"]:
        if isinstance(e, dict) and "ty" in e:
            last = e["ty"]
        elif e == "*":
            last = None
    return last


class CFModel:
    """which local bodies may yield control-flow errors (call-graph closure, no types involved)"""

    def __init__(self, facts):
        self.facts = facts
        base = set()
        for i in facts.index:
            for c in i["callees"]:
                if self.is_source_callee(c):
                    base.add(i["name"])
                    break
        # constructing the variants directly
        for n in facts.grep('"variant":"Abort"', '"variant":"Return"'):
            b = facts.body(n)
            for bi, si, s in b.iter_stmts():
                rv = s["rv"]
                if rv["k"] == "agg" and rv.get("adt") == EE and rv.get("variant") in ("Abort", "Return"):
                    base.add(n)
        cap = set(base)
        work = list(base)
        while work:
            n = work.pop()
            for c in facts.callers(n):
                if c not in cap:
                    cap.add(c)
                    work.append(c)
            # a closure makes its parent capable too (the parent passes it to someone who calls it)
            b = facts.by_name.get(n)
            if "::{closure#" in n:
                par = n.rsplit("::{closure#", 1)[0]
                if par in facts.by_name and par not in cap:
                    cap.add(par)
                    work.append(par)
        self.capable = cap
        self.base = base

    @staticmethod
    def strip(c):
        for p in ("dyn ", "? ", "ptr "):
            if c.startswith(p):
                return c[len(p):]
        return c

    def is_source_callee(self, c):
        s = self.strip(c)
        if s in RESOLVE_DECLS or RESOLVE_RE.match(s):
            return True
        if c.startswith("? std::ops::Fn") or c.startswith("? core::ops::function::Fn") or c.startswith("ptr "):
            return True
        return False

    def callee_may_yield_cf(self, callee):
        if self.is_source_callee(callee):
            return True
        return callee in self.capable


def scan_body(facts, cf, body, exceptions):
    """returns list of site dicts for one body"""
    sites = []
    # cheap pre-scan: is there any candidate event at all?
    cand = False
    for bi, t in body.iter_terms():
        if t["k"] == "drop" and byval_embeds(t["ty"]):
            cand = True
            break
        if t["k"] == "call" and not t.get("rlocal") and body.callee(t) not in PASS_ON:
            for a in t["args"]:
                p = op_place(a)
                if p is not None and a["k"] == "move":
                    ty = place_type(body, p)
                    if ty and byval_embeds(ty):
                        cand = True
                        break
            if cand:
                break
    if not cand:
        return sites
    extra = [i for i, l in enumerate(body.locals) if byval_embeds(l["ty"])]
    vf = VarFlow(facts, body, extra_locals=extra)
    seen_sites = {}

    def origin_of(local):
        srcs = flow_sources(body, local)
        why = []
        for s in srcs:
            if s[0] == "arg":
                ty = body.local_ty(s[1])
                if byval_embeds(ty):
                    if body.kind == "closure":
                        par = body.name.split("::{closure#")[0]
                        if par in cf.capable or body.name in cf.capable:
                            why.append("closure parameter _%d of a closure in an evaluating function" % s[1])
                    else:
                        why.append("parameter _%d: %s" % (s[1], ty))
                elif body.kind == "closure" and s[1] == 1:
                    # captured state (upvars) of a closure
                    par = body.name.split("::{closure#")[0]
                    if par in cf.capable:
                        why.append("captured value of an evaluating function")
            elif s[0] in ("call", "via"):
                cal = s[2]
                if cf.callee_may_yield_cf(cal):
                    why.append("result of %s" % cal)
        return why

    def record(bb, kind, place, ty, variants, t):
        l = place["l"]
        why = origin_of(l)
        k = (bb, kind)
        cur = seen_sites.get(k)
        if cur is None:
            cur = {"body": body.name, "file": t.get("file", body.file), "line": t.get("ln"), "bb": bb, "kind": kind,
                   "place": proj_str(place), "ty": ty, "variants": set(), "origin": why,
                   "callee": body.callee(t) if t["k"] == "call" else None}
            seen_sites[k] = cur
            sites.append(cur)
        cur["variants"] |= set(variants)

    def on_term(bb, t, st):
        k = t["k"]
        if k == "drop":
            ty = t["ty"]
            if byval_embeds(ty):
                vs = ee_part(vf, st, t["p"], ty)
                if vs:
                    record(bb, "drop", t["p"], ty, vs, t)
        elif k == "call":
            cal = body.callee(t)
            for ai, a in enumerate(t["args"]):
                p = op_place(a)
                if p is None or a["k"] != "move":
                    continue
                ty = place_type(body, p)
                if not ty or not byval_embeds(ty):
                    continue
                if t.get("rlocal"):
                    continue  # local callee: analysed as its own body with its parameter unconstrained
                if cal in PASS_ON:
                    continue
                vs = ee_part(vf, st, p, ty)
                if not vs:
                    continue
                if ABSORBING.match(cal):
                    record(bb, "absorbing-combinator", p, ty, vs, t)
                else:
                    record(bb, "moved-into-unreviewed-external", p, ty, vs, t)

    vf.run(on_term=on_term)
    return sites


def find_absorb_sites(facts):
    cf = CFModel(facts)
    names = facts.grep(EE, VE)
    all_sites = []
    scanned = 0
    for n in names:
        b = facts.body(n)
        if b.kind in ("const", "static", "promoted"):
            continue
        scanned += 1
        all_sites.extend(scan_body(facts, cf, b, None))
    return cf, scanned, all_sites


# ---------------------------------------------------------------------------------------------
# shared, cached entry point + the frozen exception table

EXCEPTIONS = {
    # (body name, kind): reason
    ("compiler::expression_error::<impl std::convert::From<compiler::expression_error::ExpressionError> for "
     "diagnostic::diagnostic::Diagnostic>::from", "drop"):
        "renders an error that already left Runtime::resolve (or a compile-time error) as a diagnostic; "
        "it has no caller inside the crate's evaluation code (who-may-call is re-checked on every run)",
}


def cached_sites(facts):
    import hashlib, json, os
    here = os.path.dirname(os.path.abspath(__file__))
    h = hashlib.sha256()
    for f in ("absorb.py", "varflow.py", "facts.py"):
        h.update(open(os.path.join(here, f), "rb").read())
    cdir = os.path.join(facts.path, "cache")
    cp = os.path.join(cdir, "absorb-%s.json" % h.hexdigest()[:16])
    if os.path.exists(cp):
        d = json.load(open(cp))
        for s in d["sites"]:
            s["variants"] = set(s["variants"])
        return d["scanned"], d["sites"], set(d["capable"])
    cf, scanned, sites = find_absorb_sites(facts)
    os.makedirs(cdir, exist_ok=True)
    out = []
    for s in sites:
        s2 = dict(s)
        s2["variants"] = sorted(s["variants"])
        out.append(s2)
    tmp = cp + ".tmp%d" % os.getpid()
    json.dump({"scanned": scanned, "sites": out, "capable": sorted(cf.capable)}, open(tmp, "w"))
    os.replace(tmp, cp)
    return scanned, sites, cf.capable


def check_absorb(chk, rid, variant, what):
    """shared by C06 (variant='Return') and C07 (variant='Abort')"""
    facts = chk.facts
    scanned, sites, capable = cached_sites(facts)
    chk.rule(rid, "no feasible absorb site (drop / absorbing combinator / unreviewed external move) of an "
                  "expression-originated ExpressionError may hold the `%s` variant" % variant, floor=4)
    chk.extra.setdefault("absorb_scan", {})["bodies_scanned"] = scanned
    chk.extra["absorb_scan"]["sites_total"] = len(sites)
    n_cf = 0
    for s in sites:
        desc = {"fn": s["body"], "at": "%s:%s" % (s["file"], s["line"]), "kind": s["kind"], "place": s["place"],
                "type": s["ty"][:120], "variants": sorted(s["variants"]), "origin": s["origin"][:3],
                "callee": s["callee"]}
        if s["kind"] == "moved-into-unreviewed-external" and s["origin"]:
            chk.instance(rid, desc, ok=None)
            chk.fail_closed(rid, "an ExpressionError-carrying value is moved into external callee %s at %s:%s (%s); "
                                 "add it to the reviewed PASS_ON/ABSORBING tables" % (s["callee"], s["file"], s["line"], s["body"]))
            continue
        if not s["origin"]:
            # not expression-originated: recorded, not an obligation of this rule
            chk.note(rid, "non-evaluation origin, skipped: %s %s:%s" % (s["body"], s["file"], s["line"]))
            continue
        n_cf += 1
        exc = EXCEPTIONS.get((s["body"], s["kind"]))
        if exc is not None:
            callers = [c for c in facts.callers(s["body"]) if c in capable]
            if callers:
                chk.instance(rid, desc, ok=False)
                chk.violation(rid, s["file"], s["body"], "%s %s (exception no longer valid: called from evaluating code %s)"
                              % (s["kind"], s["ty"][:60], callers[0]), "frozen exception invalid", loc=desc["at"])
            else:
                desc["exception"] = exc
                chk.instance(rid, desc, ok=True)
            continue
        if variant in s["variants"]:
            chk.instance(rid, desc, ok=False)
            chk.violation(rid, s["file"], s["body"], "%s of %s" % (s["kind"], s["ty"][:80]),
                          "%s: a value that may be ExpressionError::%s is consumed here (%s) instead of being propagated unchanged; origin: %s"
                          % (what, variant, s["kind"], "; ".join(s["origin"][:2])), detail=desc, loc=desc["at"])
        else:
            chk.instance(rid, desc, ok=True)
    return sites
