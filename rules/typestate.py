"""Shared rules for C01/C12: compile-time transfer functions (type_info) vs run-time semantics (resolve)."""
import re
from facts import op_local, op_place, flow_sources, uses_of, forward_taint, proj_fields
import fmap
import cfgq

EXPR = "compiler::expression::Expression"
FEXPR = "compiler::expression::function::FunctionExpression"
LOCAL_INSERT = "compiler::state::LocalEnv::insert_variable"
LOCAL_REMOVE = "compiler::state::LocalEnv::remove_variable"
EXT_UPDATE = ("compiler::state::ExternalEnv::update_target", "compiler::state::ExternalEnv::update_metadata")
DETAILS_MERGE = "compiler::type_def::Details::merge"
RUNNER_PREFIX = "compiler::function::closure::"

CHILD_EVAL = re.compile(r"(Expression::resolve$|Expression>::resolve$)")
CHILD_TYPE = re.compile(r"(::apply_type_info$|Expression::type_info$|Expression>::type_info$|Expression>::apply_type_info$)")

# resolve methods that evaluate a child without the child's effects needing compile-time threading, with reasons
R01A_EXEMPT = {
    "compiler::expression::abort::Abort": "abort never ends a run successfully, so the state after it is never observed",
    "compiler::expression::function::FunctionExpressionAdapter<T>": "arguments are threaded by FunctionCall::type_info (loop over self.arguments)",
    "stdlib::del::DelFn": "used as a function expression: its arguments (query, compact) are threaded by FunctionCall::type_info",
}


def self_fields_in_calls(b, pred):
    """{field of self: [call terms]} for calls matching pred whose receiver derives from a field of self"""
    out = {}
    for bb, t in b.calls():
        cal = b.callee(t)
        decl = t.get("fn") or ""
        if not (pred(cal) or pred(decl)):
            continue
        if not t["args"]:
            continue
        l = op_local(t["args"][0])
        if l is None:
            continue
        r = cfgq.ref_root(b, l)
        f = None
        if r and r[0] == 1 and r[1]:
            f = [x for x in r[1] if not x.isdigit() and x not in ("pointer",)][:1]
            f = f[0] if f else None
        elif b.kind == "closure" and r and r[0] == 1:
            f = "upvar"
        out.setdefault(f or "?", []).append((bb, t))
    return out


def family_bodies(facts, name):
    return [facts.body(n) for n in facts.family(name) if facts.has(n)]


def expression_impls(facts):
    out = []
    for imp in facts.impls_of(EXPR):
        S = imp["self"]
        items = {it["name"]: it["path"] for it in imp["items"]}
        out.append((S, items, imp))
    return out


def rule_state_threading(chk, rid):
    """R01a: every child expression that resolve() evaluates has its type state threaded by type_info()"""
    facts = chk.facts
    chk.rule(rid, "each child evaluated by resolve() is visited by type_info(), and a child's TypeInfo.state is not discarded", floor=18)
    for S, items, imp in expression_impls(facts):
        if "resolve" not in items or "type_info" not in items:
            continue
        rb = family_bodies(facts, items["resolve"])
        tb = family_bodies(facts, items["type_info"])
        ev = set()
        for b in rb:
            ev |= set(self_fields_in_calls(b, lambda c: bool(CHILD_EVAL.search(c)) or c.endswith("::map_resolve_with_default") or c.endswith("::map_resolve")).keys())
        ty = set()
        for b in tb:
            ty |= set(self_fields_in_calls(b, lambda c: bool(CHILD_TYPE.search(c)) or c.endswith("::insert_type_def")).keys())
        ev.discard("?"); ev.discard("upvar")
        ty_named = ty - {"?", "upvar"}
        d = {"impl": S, "children_evaluated": sorted(ev), "children_typed": sorted(ty)}
        missing = sorted(ev - ty_named) if "upvar" not in ty and "?" not in ty else []
        if S in R01A_EXEMPT:
            d["exempt"] = R01A_EXEMPT[S]
            chk.instance(rid, d, ok=True)
            continue
        # a type_info(&state) call (not apply_type_info) whose returned `.state` is never read
        dropped = []
        for b in tb:
            for bb, t in b.calls():
                decl = t.get("fn") or ""
                if not (decl.endswith("Expression::type_info") or b.callee(t).endswith("Expression>::type_info")):
                    continue
                res = t["dest"]["l"]
                state_used = False
                whole_used = (res == 0)   # returned as is
                for kind, ubb, si, x in uses_of(b, res):
                    if kind == "stmt":
                        rv = x["rv"]
                        p = op_place(rv["op"]) if rv["k"] in ("use", "cast") else rv.get("p") if rv["k"] == "ref" else None
                        if p is not None and p["l"] == res:
                            fl = proj_fields(p)
                            if "state" in fl:
                                state_used = True
                            if not fl:
                                whole_used = True
                    elif kind == "call":
                        if any(op_local(a) == res and not (op_place(a) or {}).get("p") for a in x["args"]):
                            whole_used = True
                        if any(op_local(a) == res and "state" in proj_fields(op_place(a)) for a in x["args"]):
                            state_used = True
                if not state_used and not whole_used:
                    l = op_local(t["args"][0])
                    r = cfgq.ref_root(b, l) if l is not None else None
                    dropped.append({"child": (r[1][:1] if r and r[1] else ["?"])[0], "at": "%s:%s" % (b.file, t["ln"])})
        d["type_info_results_whose_state_is_dropped"] = dropped
        ok = not missing and not dropped
        chk.instance(rid, d, ok=ok)
        if missing:
            b0 = tb[0]
            chk.violation(rid, b0.file, items["type_info"], "child `%s` not typed" % missing[0],
                          "%s::resolve evaluates self.%s but type_info never applies its type info: assignments/deletions inside that child are missing "
                          "from the compile-time state" % (S, missing[0]), detail=d, loc="%s:%d" % (b0.file, b0.line))
        for dr in dropped:
            b0 = tb[0]
            chk.violation(rid, b0.file, items["type_info"], "state of child `%s` discarded" % dr["child"],
                          "%s::type_info computes the child's TypeInfo but drops its `.state`: side effects of self.%s (assignments are expressions) vanish "
                          "from the program's type state" % (S, dr["child"]), detail=d, loc=dr["at"])


def rule_mutator_pairing(chk, rid):
    """R01b/R12a: run-time writers of variables / target have a compile-time counterpart"""
    facts = chk.facts
    chk.rule(rid, "expressions whose resolve writes variables/target update LocalEnv/ExternalEnv in type_info; FunctionExpression impls write neither", floor=200)
    M = fmap.FMap(facts)

    def stop_runner(c):
        return c.startswith(RUNNER_PREFIX)   # closure parameter swap is balanced (C13)

    def writes(roots):
        eff, seen, ext = fmap.effects(facts, roots, extra_stop=stop_runner)
        return {a: eff[a][0] for a in ("VAR_WRITE", "TARGET_WRITE") if a in eff}

    def compile_time(roots):
        # the impl's own type_info and the helpers it calls, not the typing of child expressions
        seen, ext, par = facts.reach(roots, stop=lambda c: bool(CHILD_TYPE.search(c)) or c.endswith("::resolve_constant"))
        names = set(seen) | set(ext)
        return {"local": bool(names & {LOCAL_INSERT, LOCAL_REMOVE}), "external": bool(names & set(EXT_UPDATE))}

    for S, items, imp in expression_impls(facts):
        if "resolve" not in items:
            continue
        if S.startswith("compiler::expression::Expr") and S == "compiler::expression::Expr":
            continue  # enum dispatcher
        if S.startswith("compiler::expression::function::FunctionExpressionAdapter"):
            continue
        w = writes([items["resolve"]])
        # direct effects only: do not count what children do (stop set) — effects() already stops at child evaluation
        ct = compile_time([items["type_info"]]) if "type_info" in items else {"local": False, "external": False}
        d = {"impl": S, "runtime_writes": {a: {"callee": v[0], "via": v[1][-2:]} for a, v in w.items()}, "type_info_updates": ct}
        probs = []
        if "VAR_WRITE" in w and not ct["local"]:
            probs.append(("VAR_WRITE", "variables (%s)" % w["VAR_WRITE"][0].rsplit("::", 1)[-1], "LocalEnv"))
        if "TARGET_WRITE" in w and not ct["external"]:
            probs.append(("TARGET_WRITE", "the target", "ExternalEnv"))
        chk.instance(rid, d, ok=not probs)
        for a, what, env in probs:
            chk.violation(rid, imp["file"], S, "%s without %s update" % (a, env),
                          "%s::resolve writes %s at run time but its type_info never updates the %s: the compiler keeps the old type and constant of what was "
                          "changed" % (S, what, env), detail=d, loc="%s:%s" % (imp["file"], imp["line"]))
    for f in M.functions.values():
        for e in f["exprs"]:
            rb = M.resolve_body(e)
            if not rb or "as %s>" % FEXPR not in rb:
                continue
            w = writes([rb])
            d = {"function": f["identifier"], "expr": e, "runtime_writes": {a: v[0] for a, v in w.items()}}
            chk.instance(rid, d, ok=not w)
            for a, (callee, path) in w.items():
                chk.violation(rid, f["file"], e, "%s in a FunctionExpression" % a,
                              "`%s` mutates %s at run time (%s) but is a plain FunctionExpression, whose adapter returns the incoming type state unchanged"
                              % (f["identifier"], "variables" if a == "VAR_WRITE" else "the target", callee), detail=d)


def rule_join_discipline(chk, rid):
    """R01c/R12b: bindings reach a merged state only through Details::merge"""
    facts = chk.facts
    chk.rule(rid, "in the join functions every Details/Kind taken from one operand reaches the result only through Details::merge / Kind::union", floor=3)
    name = "compiler::state::LocalEnv::merge"
    b = chk.anchor(name, rid)
    if b is not None:
        merges = [t["dest"]["l"] for bb, t in b.calls() if b.callee(t) == DETAILS_MERGE]
        ok_locals = forward_taint(b, set(merges))
        sinks = []
        for bb, t in b.calls():
            cal = b.callee(t)
            if re.search(r"HashMap::<K, V, S, A>::insert$|HashMap::<K, V, S>::insert$", cal):
                l = op_local(t["args"][2]) if len(t["args"]) > 2 else None
                sinks.append(("insert", l, t["ln"]))
        for bi, si, s in b.iter_stmts():
            d = s["d"]
            if d.get("p") and "*" in d["p"] and b.local_ty(d["l"]).startswith("&mut compiler::type_def::Details"):
                sinks.append(("store", op_local(s["rv"].get("op", {})) if s["rv"]["k"] == "use" else None, s.get("ln")))
        for kind, l, ln in sinks:
            ok = l is not None and l in ok_locals
            d = {"fn": name, "sink": kind, "line": ln, "value_from_Details_merge": ok}
            chk.instance(rid, d, ok=ok)
            if not ok:
                chk.violation(rid, b.file, name, "binding %s without Details::merge" % kind,
                              "LocalEnv::merge copies a binding from one branch verbatim (line %s): the merged state claims a type and a constant that the "
                              "other branch never established" % ln, detail=d, loc="%s:%s" % (b.file, ln))
        if not sinks:
            chk.fail_closed(rid, "LocalEnv::merge: no binding sink found")
        # every binding present on both sides goes through Details::merge: from the `Some` edge of the lookup in self.bindings no path returns to
        # the loop head (or leaves the function) without a Details::merge call
        merge_bbs = [bb for bb, t in b.calls() if b.callee(t) == DETAILS_MERGE]
        lookups = [(bb, t) for bb, t in b.calls() if re.search(r"HashMap::<K, V, S(, A)?>::get_mut(::<.*>)?$|HashMap::<K, V, S(, A)?>::get(::<.*>)?$", b.callee(t))]
        found = False
        for sbb, place, adt, tg, other in cfgq.discr_switches_on(facts, b, lambda p_, a_: a_ == "std::option::Option"):
            chain = cfgq.ref_chain(b, place["l"])
            if not any(cfgq.single_def(b, x) and cfgq.single_def(b, x)[0] == "call" and any(cfgq.single_def(b, x)[1] == lb for lb, lt in lookups) for x in chain):
                continue
            some_t = tg.get("Some", other)
            if some_t is None:
                continue
            found = True
            # blocks reachable from the Some edge without passing a merge call
            free = b.reachable_from_edges([some_t], avoid=merge_bbs)
            # escaping = reaching the loop's iterator `next` call again or a return, merge-free
            escapes = [x for x in free if b.term(x)["k"] == "return" or (b.term(x)["k"] == "call" and re.search(r"Iterator>::next$", b.callee(b.term(x))))]
            d = {"fn": name, "clause": "binding present on both sides is always merged", "merge_free_escape_blocks": escapes[:3]}
            chk.instance(rid, d, ok=not escapes)
            if escapes:
                chk.violation(rid, b.file, name, "shared binding can skip Details::merge",
                              "LocalEnv::merge can keep a binding that exists on both sides without calling Details::merge (a path from the `Some` edge of the "
                              "lookup back to the loop skips it): the merged state keeps one side's constant/type, e.g. `x = 0; if .a == 3 { x = 2 }; 10 / x` "
                              "is folded with x = 0", detail=d)
        if not found:
            chk.fail_closed(rid, "LocalEnv::merge: the lookup of the other side's identifier in self.bindings was not found")
    # LocalEnv::merge is asymmetric: a binding that exists only in the receiver is kept as it is, one that exists only in the argument is
    # joined with "unset".  Where a state that *may* have run (the right operand of `&&`/`||`/`??`) is joined with the state that skips it,
    # the skipping state must therefore be the receiver and the optional one the argument.
    mr = "<compiler::expression::op::Op as compiler::expression::Expression>::type_info::{closure#0}"
    if facts.has(mr):
        mb = facts.body(mr)
        sites = [(bb, t) for bb, t in mb.calls() if mb.callee(t) == "compiler::state::TypeState::merge"]
        for bb, t in sites:
            recv = flow_sources(mb, op_local(t["args"][0]), pass_through=lambda c: False) if op_local(t["args"][0]) is not None else set()
            arg = flow_sources(mb, op_local(t["args"][1]), pass_through=lambda c: False) if op_local(t["args"][1]) is not None else set()
            recv_is_clone = any(x[0] == "call" and x[2] == "<compiler::state::TypeState as std::clone::Clone>::clone" for x in recv)
            arg_is_rhs = any(x[0] == "call" and x[2].endswith("as compiler::expression::Expression>::type_info") for x in arg)
            recv_is_rhs = any(x[0] == "call" and x[2].endswith("as compiler::expression::Expression>::type_info") for x in recv)
            d = {"fn": mr, "receiver_is_the_skipping_state": recv_is_clone and not recv_is_rhs, "argument_is_the_optional_state": arg_is_rhs}
            ok = d["receiver_is_the_skipping_state"] and d["argument_is_the_optional_state"]
            chk.instance(rid, d, ok=ok)
            if not ok:
                chk.violation(rid, mb.file, mr, "optional state is the receiver of TypeState::merge",
                              "Op::type_info joins the state after a right operand that may not run with the state that skips it, but with the optional state "
                              "as the *receiver* of merge: bindings that exist only in the receiver are kept unjoined, so a variable first assigned on the "
                              "right of `&&`/`||`/`??` keeps its exact type and constant (`(.a == 1) && ((x = 5) == 5); 10 / x` is accepted)", detail=d,
                              loc="%s:%s" % (mb.file, t["ln"]))
        if not sites:
            chk.fail_closed(rid, "Op::type_info's maybe_rhs closure no longer calls TypeState::merge")
    else:
        chk.fail_closed(rid, "anchor not found: %s" % mr)
    name = "compiler::state::ExternalEnv::merge"
    b = chk.anchor(name, rid)
    if b is not None:
        aggs = cfgq.agg_sites(b, "compiler::state::ExternalEnv")
        ok = False
        for bi, si, s in aggs:
            srcs = {}
            for nme, op in zip(s["rv"].get("fnames", []), s["rv"]["ops"]):
                l = op_local(op)
                srcs[nme] = sorted({x[2].rsplit("::", 2)[-2] + "::" + x[2].rsplit("::", 1)[-1] for x in flow_sources(b, l) if x[0] in ("call", "via")}) if l is not None else []
            ok = any("merge" in x for x in srcs.get("target", [])) and any("union" in x for x in srcs.get("metadata", []))
            d = {"fn": name, "field_sources": srcs}
        chk.instance(rid, d if aggs else {"fn": name}, ok=ok)
        if not ok:
            chk.violation(rid, b.file, name, "ExternalEnv fields not merged", "ExternalEnv::merge does not combine target (Details::merge) and metadata (Kind::union) of both operands")
    name = "compiler::state::TypeState::merge"
    b = chk.anchor(name, rid)
    if b is not None:
        cal = {b.callee(t) for bb, t in b.calls()}
        ok = {"compiler::state::LocalEnv::merge", "compiler::state::ExternalEnv::merge"} <= cal
        chk.instance(rid, {"fn": name, "calls": sorted(cal)}, ok=ok)
        if not ok:
            chk.violation(rid, b.file, name, "TypeState::merge does not merge both environments", "TypeState::merge no longer merges local and external environments")
