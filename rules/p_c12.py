"""C12 — compile-time constant knowledge matches run-time values (where constants are created, joined and consumed)."""
import re
from facts import op_local, op_place, flow_sources
import typestate
import cfgq

CHECK_CLOSURE = "compiler::expression::function_call::Builder::<'a>::check_closure"
OP_CONST = "<compiler::expression::op::Op as compiler::expression::Expression>::resolve_constant"
OP_TABLE = {"Mul": "try_mul", "Div": "try_div", "Add": "try_add", "Sub": "try_sub"}
# reviewed consumers of compile-time constants outside the stdlib (each turns "the compiler knows the value" into a decision)
CORE_CONSUMERS = {
    "<compiler::expression::Expr as compiler::expression::Expression>::resolve_constant": "enum dispatcher",
    "<compiler::expression::array::Array as compiler::expression::Expression>::resolve_constant": "per-element constant",
    "<compiler::expression::container::Container as compiler::expression::Expression>::resolve_constant": "dispatcher",
    "<compiler::expression::function_call::FunctionCall as compiler::expression::Expression>::resolve_constant": "delegates to the function expression",
    "<compiler::expression::group::Group as compiler::expression::Expression>::resolve_constant": "delegates to the inner expression",
    "<compiler::expression::object::Object as compiler::expression::Expression>::resolve_constant": "per-field constant",
    "<compiler::expression::op::Op as compiler::expression::Expression>::resolve_constant": "constant arithmetic (agreement checked by R12c)",
    "<compiler::expression::op::Op as compiler::expression::Expression>::type_info": "constant divisor / short-circuit typing",
    "<compiler::expression::query::Query as compiler::expression::Expression>::resolve_constant": "path lookup inside a constant",
    "<compiler::expression::assignment::Variant<compiler::expression::assignment::Target, U> as compiler::expression::Expression>::type_info":
        "records the constant of an assigned variable (Details.value)",
    "<compiler::expression::function::FunctionExpressionAdapter<T> as compiler::expression::Expression>::resolve_constant": "delegates",
    "compiler::expression::Expr::as_literal": "literal-only function arguments",
    "compiler::expression::Expr::as_enum": "enum-valued literal-only function arguments",
    "compiler::expression::function_call::Builder::<'a>::check_closure": "closure variable bound to the target's constant (VariableKind::Target)",
    "compiler::function::ArgumentList::optional_literal": "literal-only function arguments",
    "compiler::function::ArgumentList::optional_regex": "literal-only function arguments",
    "compiler::function::ConstOrExpr::new": "pre-evaluated argument with expression fallback",
    "<stdlib::del::DelFn as compiler::expression::Expression>::type_info": "constant `compact` flag selects the type-level removal",
}


def run(chk):
    facts = chk.facts
    chk.explanation = (
        "Decides where constant knowledge is created, joined and consumed; not that every constant is right. R12a = R01b: every run-time writer of a "
        "variable/target has a compile-time counterpart that overwrites the binding (and thereby its Details.value). R12b = R01c: joins go through "
        "Details::merge, which drops differing constants. R12c: Op::resolve_constant evaluates each opcode with the same VrlValueArithmetic method as "
        "Op::resolve. R12d: closure parameters get `value: None` except VariableKind::Target. R12e: who-may-consume — callers of resolve_constant / "
        "Expr::as_literal outside the stdlib are exactly the reviewed table (a new consumer in the compiler, e.g. lowering an operand to a literal, "
        "must be reviewed against closures that run more than once). R12h: who-may-produce — a `Details { value: .. }` with a value that is not "
        "`None` is constructed only at the reviewed producer sites (assignment of the right-hand side's constant, the closure Target variable, "
        "Details::merge/clone); every other constructor (del, branch merges, deletions on external paths) stores `None`, i.e. invalidates. R12i: a `Details` is never updated field-wise — its `type_def` is never assigned without its `value` "
        "(a binding whose type changes keeps no constant from before the change). Undecided: "
        "constants through closures (upstream TODO #13782).")
    typestate.rule_mutator_pairing(chk, "R12a")
    typestate.rule_join_discipline(chk, "R12b")

    rid = "R12c"
    chk.rule(rid, "Op::resolve_constant uses the same arithmetic method per opcode as Op::resolve", floor=4)
    b = chk.anchor(OP_CONST, rid)
    if b is not None:
        from varflow import VarFlow
        vf = VarFlow(facts, b)
        opkey = vf.key({"l": 1, "p": ["*", {"f": "opcode", "ty": ""}]})
        seen = {}

        def on_term(bb, t, st):
            if t["k"] != "call":
                return
            m = re.match(r"^<value::value::Value as compiler::value::arithmetic::VrlValueArithmetic>::(\w+)$", b.callee(t))
            if m:
                ops = st.get(opkey)
                seen.setdefault(m.group(1), set()).update(set(ops) if ops is not None else {"<any>"})
        vf.run(on_term=on_term)
        for meth, ops in sorted(seen.items()):
            ok = all(OP_TABLE.get(o) == meth for o in ops)
            d = {"method": meth, "opcodes": sorted(ops)}
            chk.instance(rid, d, ok=ok)
            if not ok:
                chk.violation(rid, b.file, OP_CONST, "constant %s via %s" % ("/".join(sorted(ops)), meth),
                              "Op::resolve_constant folds opcode(s) %s with %s while Op::resolve uses %s" % (sorted(ops), meth, [OP_TABLE.get(o) for o in ops]),
                              detail=d)
        if not seen:
            chk.fail_closed(rid, "Op::resolve_constant: no arithmetic call found")
        # nothing else may produce a folded constant: no strict Value equality (the run time compares with eq_lossy: 1 == 1.0), and no `Some(..)`
        # built by hand — the folded value is the `.ok()` of the operator's own method
        other = []
        for x in facts.family(OP_CONST):
            xb = facts.body(x)
            for bb, t in xb.calls():
                if re.search(r"<value::value::Value as std::cmp::PartialEq>::(eq|ne)$", xb.callee(t)):
                    other.append(("strict Value equality (PartialEq)", t["ln"]))
            for bi, si, st in xb.iter_stmts():
                rv = st["rv"]
                if st["d"]["l"] == 0 and not st["d"].get("p") and rv["k"] == "agg" and rv.get("adt") == "std::option::Option" and rv.get("variant") == "Some" \
                        and x == OP_CONST:
                    other.append(("a hand-built Some(..)", st.get("ln")))
        d = {"fn": OP_CONST, "other_constant_producers": other}
        chk.instance(rid, d, ok=not other)
        for what, ln in other:
            chk.violation(rid, b.file, OP_CONST, "constant folded by %s" % what,
                          "Op::resolve_constant produces a constant through %s (line %s) instead of the operator's run-time method: the folded value can differ "
                          "from what the program computes (e.g. `1 == 1.0` is true at run time, false under strict equality)" % (what, ln), detail=d,
                          loc="%s:%s" % (b.file, ln))

    rid = "R12g"
    chk.rule(rid, "Target::insert_type_def records the assigned constant only under path.is_root()", floor=2)
    ITD = "compiler::expression::assignment::Target::insert_type_def"
    tb = chk.anchor(ITD, rid)
    if tb is not None:
        roots = [(bb, cfgq.bool_switch_after_call(tb, bb)) for bb, t in tb.calls() if tb.callee(t).endswith("::is_root")]
        true_targets = [e[0] for bb, e in roots if e]
        n = 0
        for bi, si, s in cfgq.agg_sites(tb, "compiler::type_def::Details"):
            for nme, op in zip(s["rv"].get("fnames", []), s["rv"]["ops"]):
                if nme != "value":
                    continue
                n += 1
                v = op_local(op)
                bad = None
                chain = cfgq.ref_chain(tb, v) if v is not None else []
                if 4 in chain or v == 4:
                    bad = "the constant parameter is stored unconditionally"
                else:
                    for kind, dbb, dsi, dx in tb.defs().get(v, []) if v is not None else []:
                        if kind == "stmt" and dx["rv"]["k"] == "use":
                            src = op_local(dx["rv"]["op"])
                            if src is not None and 4 in cfgq.ref_chain(tb, src):
                                if not any(tb.dominates(tt, dbb) for tt in true_targets):
                                    bad = "the constant parameter is stored on a path not guarded by is_root()"
                d = {"fn": ITD, "at": "%s:%s" % (tb.file, s.get("ln")), "is_root_tests": len(roots), "problem": bad}
                chk.instance(rid, d, ok=not bad)
                if bad:
                    chk.violation(rid, tb.file, ITD, "constant recorded for a path assignment",
                                  "insert_type_def: %s — after `x.a = 2` the compiler believes the whole of x is the constant 2" % bad, detail=d, loc=d["at"])
        if n == 0:
            chk.fail_closed(rid, "insert_type_def: no Details{..} construction found")

    rid = "R12f"
    chk.rule(rid, "Op::type_info looks up the right operand's constant in the state that already absorbed the left operand's effects", floor=2)
    OP_TI = "<compiler::expression::op::Op as compiler::expression::Expression>::type_info"
    ob = chk.anchor(OP_TI, rid)
    if ob is not None:
        import typestate as ts_
        lhs_states = set()
        for fb in [facts.body(n) for n in facts.family(OP_TI)]:
            if fb.name != OP_TI:
                continue
            for bb, t in fb.calls():
                if fb.callee(t).endswith("::apply_type_info") or (t.get("fn") or "").endswith("::apply_type_info"):
                    l = op_local(t["args"][0]); r = cfgq.ref_root(fb, l) if l is not None else None
                    if r and r[0] == 1 and "lhs" in r[1]:
                        sl = op_local(t["args"][1]); sr_ = cfgq.ref_root(fb, sl) if sl is not None else None
                        if sr_:
                            lhs_states.add(sr_[0])
            for bb, t in fb.calls():
                if (t.get("fn") or "").endswith("::resolve_constant") or fb.callee(t).endswith("::resolve_constant"):
                    l = op_local(t["args"][0]); r = cfgq.ref_root(fb, l) if l is not None else None
                    if not (r and r[0] == 1 and "rhs" in r[1]):
                        continue
                    sl = op_local(t["args"][1]); sr_ = cfgq.ref_root(fb, sl) if sl is not None else None
                    d = {"fn": OP_TI, "at": "%s:%s" % (fb.file, t["ln"]), "state_local": sr_[0] if sr_ else None,
                         "state_after_lhs": sorted(lhs_states), "state_name": fb.local_name(sr_[0]) if sr_ else None}
                    ok = bool(sr_) and sr_[0] in lhs_states
                    chk.instance(rid, d, ok=ok)
                    if not ok:
                        chk.violation(rid, fb.file, OP_TI, "rhs constant read from a stale state",
                                      "Op::type_info evaluates the right operand's constant in `%s`, not in the state after the left operand: `(x = 0) / x` "
                                      "is typed with x's old constant" % d["state_name"], detail=d, loc=d["at"])

    rid = "R12d"
    chk.rule(rid, "closure parameters are bound with value: None unless VariableKind::Target", floor=1)
    b = chk.anchor(CHECK_CLOSURE, rid)
    if b is not None:
        from varflow import VarFlow
        vf = VarFlow(facts, b)
        rec = []
        # tuples (type_def, value) built per VariableKind arm; value operand must be Option::None except under Target
        for sbb, place, adt, tg, other in cfgq.discr_switches_on(facts, b, lambda p, a: a.endswith("closure::VariableKind")):
            for var, tbb in tg.items():
                others = [x for v, x in tg.items() if v != var] + [other]
                region = b.reachable_from_edges([tbb], avoid=[sbb] + [o for o in others if o != tbb])
                vals = set()
                for rb in region:
                    for s in b.stmts(rb):
                        rv = s["rv"]
                        if rv["k"] == "agg" and rv.get("adt") == "(tuple)" and len(rv["ops"]) == 2 and "Option<value::value::Value>" in b.local_ty(s["d"]["l"]):
                            l = op_local(rv["ops"][1])
                            src = flow_sources(b, l) if l is not None else set()
                            if any(x[0] == "agg" and x[2] == "std::option::Option" and x[3] == "None" for x in src):
                                vals.add("None")
                            if any(x[0] in ("call", "via") and x[2].endswith("::resolve_constant") for x in src):
                                vals.add("resolve_constant")
                rec.append((var, sorted(vals)))
        for var, vals in rec:
            ok = (vals == ["None"]) if var != "Target" else True
            d = {"variable_kind": var, "value_sources": vals}
            chk.instance(rid, d, ok=ok)
            if not ok:
                chk.violation(rid, b.file, CHECK_CLOSURE, "closure variable constant for VariableKind::%s" % var,
                              "a closure parameter of kind %s is given a compile-time constant (%s): it changes on every iteration" % (var, vals), detail=d)
        if not rec:
            chk.fail_closed(rid, "check_closure: VariableKind dispatch not found")

    rid = "R12e"
    chk.rule(rid, "consumers of compile-time constants outside the stdlib are the reviewed table", floor=10)
    consumers = {}
    for i in facts.index:
        n = i["name"].split("::{closure")[0]
        for c in i["callees"]:
            if c.endswith("::resolve_constant") or c == "compiler::expression::Expr::as_literal":
                consumers.setdefault(n, set()).add(c.rsplit("::", 1)[-1])
    for n, what in sorted(consumers.items()):
        if n.startswith("stdlib::") or n.startswith("<stdlib::"):
            if n not in CORE_CONSUMERS:
                continue
        d = {"consumer": n, "calls": sorted(what), "reason": CORE_CONSUMERS.get(n)}
        ok = n in CORE_CONSUMERS
        chk.instance(rid, d, ok=ok)
        if not ok:
            nb = facts.body(i["name"]) if False else (facts.body(n) if facts.has(n) else None)
            chk.violation(rid, nb.file if nb else "src/compiler", n, "unreviewed constant consumer",
                          "%s consumes compile-time constants (%s) but is not in the reviewed table: constants can be stale where a closure re-runs or a "
                          "variable is reassigned, so each consumer must be reviewed" % (n, sorted(what)), detail=d,
                          loc=("%s:%d" % (nb.file, nb.line)) if nb else None)

    rule_r12h(chk)
    rule_r12i(chk)


DETAILS = "compiler::type_def::Details"
CONST_PRODUCERS = {
    "compiler::expression::assignment::Target::insert_type_def": "stores the constant of the assigned expression (R12f/R12g decide which)",
    "compiler::expression::function_call::Builder::<'a>::check_closure": "VariableKind::Target gets the target's constant (R12d)",
    "compiler::type_def::Details::merge": "keeps a constant only when both sides agree (R12b)",
    "<compiler::type_def::Details as std::clone::Clone>::clone": "copy",
    "compiler::state::LocalEnv::merge": "the branch that did not bind the variable is modelled as `null` (constant Null) and merged at once with the binding of "
                                        "the other branch through Details::merge (R12b/R01c), which keeps a constant only if both agree",
}


def rule_r12h(chk):
    from facts import flow_sources, op_local
    facts = chk.facts
    rid = "R12h"
    chk.rule(rid, "only the reviewed producer sites construct Details with a value other than None", floor=8)
    for n in sorted(facts.grep('"adt":"%s"' % DETAILS)):
        b = facts.body(n)
        base = n.split("::{closure")[0]
        for k, (bi, si, st) in enumerate(cfgq.agg_sites(b, DETAILS)):
            rv = st["rv"]
            ops = dict(zip(rv.get("fnames", []), rv["ops"]))
            v = ops.get("value")
            none_only = False
            srcs = []
            if v is not None and op_local(v) is not None:
                fs = flow_sources(b, op_local(v), pass_through=lambda c: False)
                srcs = sorted(set("%s %s" % (x[0], x[3] if x[0] == "agg" and len(x) > 3 else (x[2] if len(x) > 2 else x[1])) for x in fs))
                none_only = bool(fs) and all(x[0] == "agg" and x[2] == "std::option::Option" and x[3] == "None" for x in fs)
            d = {"fn": n, "at": "%s:%s" % (b.file, st.get("ln")), "value_sources": srcs[:5], "stores_none_only": none_only, "reviewed_producer": CONST_PRODUCERS.get(base)}
            ok = none_only or base in CONST_PRODUCERS
            chk.instance(rid, d, ok=ok)
            if not ok:
                chk.violation(rid, b.file, n, "unreviewed constant producer #%d" % k,
                              "%s stores a compile-time constant (value sources: %s) although it is not one of the reviewed producers: a constant computed "
                              "outside the assignment path must be exactly what the run time will hold on every path (e.g. a deletion whose `compact` flag is "
                              "only known at run time)" % (n, srcs[:3]), detail=d, loc=d["at"])


def rule_r12i(chk):
    facts = chk.facts
    rid = "R12i"
    chk.rule(rid, "no field-wise write into a Details (type_def without value or vice versa)", floor=1)
    hits = []
    for n in facts.grep('"f":"type_def"'):
        b = facts.body(n)
        if b.kind in ("const", "static", "promoted"):
            continue
        for bi, si, st in b.iter_stmts():
            proj = st["d"].get("p", [])
            fl = [e for e in proj if isinstance(e, dict) and "f" in e]
            if not fl or fl[-1]["f"] not in ("type_def", "value"):
                continue
            base_ty = b.local_ty(st["d"]["l"]) if len(fl) == 1 else (fl[-2].get("ty") or "")
            if "type_def::Details" in base_ty:
                hits.append((n, b, st))
    chk.instance(rid, {"bodies_scanned": "all", "field_wise_writes": len(hits)}, ok=not hits)
    for k, (n, b, st) in enumerate(hits):
        chk.violation(rid, b.file, n, "Details updated field-wise #%d" % k,
                      "%s assigns one field of a Details (line %s) and keeps the other: a variable whose type is replaced keeps the constant the compiler "
                      "knew before (or the reverse), e.g. `ok = true; if .f == 1 { ok = false }; ok || \"x\"` is folded with the stale constant" % (n, st.get("ln")),
                      detail={"fn": n, "line": st.get("ln")}, loc="%s:%s" % (b.file, st.get("ln")))
