"""C30 — Datadog search queries round-trip through text (escape-alphabet agreement)."""
import os
import re
from facts import op_local, op_place
from varflow import VarFlow

LUCENE_ESCAPE = "datadog::search::node::QueryNode::lucene_escape"
QUOTED_ESCAPE = "datadog::search::node::QueryNode::quoted_escape"
GRAMMAR = "src/datadog/search/grammar.pest"


def read_pest(path):
    """very small reader for the subset used here: NAME = mod{ alt | alt ... } with string literals and rule names"""
    rules = {}
    text = open(path).read()
    for m in re.finditer(r"^\s*([A-Za-z_][A-Za-z0-9_]*)\s*=\s*[_@$!]?\{(.*?)\}\s*$", text, re.M):
        rules[m.group(1)] = m.group(2).strip()
    return rules


def literal_alternatives(rules, name, seen=None):
    """(single-char set, multi-char literals, unresolved names) of a pure alternation rule"""
    seen = seen or set()
    if name in seen or name not in rules:
        return set(), [], [name]
    seen.add(name)
    body = rules[name].strip()
    if body.startswith("(") and body.endswith(")"):
        body = body[1:-1]
    chars, multi, unresolved = set(), [], []
    for alt in re.split(r"\s*\|\s*", body):
        alt = alt.strip()
        m = re.match(r'^"((?:[^"\\]|\\.)*)"$', alt)
        if m:
            lit = bytes(m.group(1), "utf-8").decode("unicode_escape")
            if len(lit) == 1:
                chars.add(lit)
            else:
                multi.append(lit)
        elif re.match(r"^[A-Za-z_][A-Za-z0-9_]*$", alt):
            if alt in ("EOI", "ANY", "SOI"):
                continue
            c, mu, un = literal_alternatives(rules, alt, seen)
            chars |= c
            multi += mu
            unresolved += un
        else:
            unresolved.append(alt)
    return chars, multi, unresolved


def escaped_set(facts, name):
    """P-CHARSET: code points for which the function reaches `String::push(_, '\\\\')` (decided per switch edge by P-VAR)"""
    b = facts.body(name)
    char_locals = [i for i, l in enumerate(b.locals) if l["ty"] == "char"]
    vf = VarFlow(facts, b, extra_locals=char_locals)
    got = set()
    other = [False]

    def on_term(bb, t, st):
        if t["k"] == "call" and b.callee(t) == "std::string::String::push" and len(t["args"]) > 1 and t["args"][1].get("char") == 92:
            vals = None
            for cl in char_locals:
                v = st.get("_%d" % cl)
                if v is not None and all(re.match(r"^-?\d+$", x) for x in v):
                    vals = v
            if vals is None:
                # the test may live in a predicate helper (`if needs_escape(c) { push('\\') }`): use the helper's true-set
                summar = None
                for k, v in st.items():
                    if v == frozenset(["true"]) and re.match(r"^_\d+$", k):
                        ds = b.defs().get(int(k[1:]), [])
                        if len(ds) == 1 and ds[0][0] == "call" and facts.has(b.callee(ds[0][3])):
                            ts_ = predicate_true_set(facts, b.callee(ds[0][3]))
                            if ts_ is not None:
                                summar = ts_ if summar is None else (summar & ts_)
                if summar is None:
                    other[0] = True
                else:
                    got.update(summar)
            else:
                for x in vals:
                    try:
                        got.add(chr(int(x)))
                    except ValueError:
                        pass
    vf.run(on_term=on_term)
    return got, other[0]


def predicate_true_set(facts, name):
    """code points for which the local predicate `fn(char) -> bool` returns true, or None when that cannot be decided"""
    pb = facts.body(name)
    if pb.argc != 1 or pb.local_ty(1) != "char" or pb.local_ty(0) != "bool":
        return None
    vf = VarFlow(facts, pb, extra_locals=[0, 1])
    out = set()
    unknown = [False]

    def on_term(bb, t, st):
        if t["k"] != "return":
            return
        r = st.get("_0")
        if r == frozenset(["false"]):
            return
        v = st.get("_1")
        if v is not None:
            for x in v:
                try:
                    out.add(chr(int(x)))
                except ValueError:
                    unknown[0] = True
            return
        iv = st.get("_1#iv")
        if iv is not None and sum(hi - lo + 1 for lo, hi in iv) <= 4096:
            for lo, hi in iv:
                for cp in range(lo, hi + 1):
                    out.add(chr(cp))
            return
        unknown[0] = True
    vf.run(on_term=on_term)
    if unknown[0]:
        return None
    return out


def run(chk):
    facts = chk.facts
    chk.explanation = (
        "Decides escape-alphabet agreement between the renderer and the grammar, not tree equality after re-parsing. The characters grammar.pest forbids "
        "at the start of / as the end of an unescaped TERM (INVALID_TERM_STARTS, TERM_END_CHAR; read with a small PEG-alternation reader from the "
        "repository's grammar file) must all be in the set QueryNode::lucene_escape escapes (P-CHARSET: the code points whose switch edge reaches "
        "String::push('\\\\'), computed by P-VAR over the MIR). quoted_escape must escape at least '\"' and '\\\\' (what PHRASE needs). R30c: numeric "
        "alphabet agreement - every float formatter called by the renderers in datadog::search::node emits only characters NUMERIC_TERM accepts "
        "(the grammar's exponent letters are read from grammar.pest; Debug/LowerExp emit `e`, UpperExp emits `E`). Undecided: operator "
        "precedence, default-field handling, ranges.")
    chk.assumptions += ["grammar.pest is the grammar the parser is generated from (pest_derive reads the same file)"]
    path = os.path.join(chk.repo, GRAMMAR)
    if not os.path.exists(path):
        chk.fail_closed("R30a", "grammar file not found: %s" % GRAMMAR)
        return
    rules = read_pest(path)
    rid = "R30a"
    chk.rule(rid, "every single character the grammar treats as special for unquoted terms is escaped by lucene_escape", floor=20)
    if not facts.has(LUCENE_ESCAPE):
        chk.fail_closed(rid, "anchor not found: %s" % LUCENE_ESCAPE)
        return
    esc, other = escaped_set(facts, LUCENE_ESCAPE)
    special, multi, unresolved = set(), [], []
    for r in ("INVALID_TERM_STARTS", "TERM_END_CHAR"):
        if r not in rules:
            chk.fail_closed(rid, "grammar rule %s not found" % r)
            continue
        c, mu, un = literal_alternatives(rules, r)
        special |= c
        multi += mu
        unresolved += un
    chk.extra["grammar_special_chars"] = sorted(special)
    chk.extra["lucene_escape_set"] = sorted(esc)
    chk.extra["grammar_multi_char_literals_unarmed"] = multi
    if unresolved:
        chk.note(rid, "grammar alternatives not understood (unarmed): %s" % unresolved)
    for ch in sorted(special):
        d = {"char": ch, "codepoint": ord(ch), "escaped_by_lucene_escape": ch in esc or other}
        ok = ch in esc or other
        chk.instance(rid, d, ok=ok)
        if not ok:
            chk.violation(rid, "src/datadog/search/node.rs", LUCENE_ESCAPE, "special character U+%04X not escaped" % ord(ch),
                          "the grammar ends/forbids an unquoted term at %r but lucene_escape emits it unescaped: a term containing it re-parses as a different "
                          "query (e.g. `@a:foo\\ bar` -> `@a:foo bar` -> `@a:foo AND bar`)" % ch, detail=d)
    rid = "R30b"
    chk.rule(rid, "quoted_escape escapes '\"' and '\\\\'", floor=2)
    if facts.has(QUOTED_ESCAPE):
        qesc, qother = escaped_set(facts, QUOTED_ESCAPE)
        for ch in ('"', "\\"):
            ok = ch in qesc or qother
            chk.instance(rid, {"char": ch, "escaped": ok}, ok=ok)
            if not ok:
                chk.violation(rid, "src/datadog/search/node.rs", QUOTED_ESCAPE, "%r not escaped in quoted text" % ch,
                              "quoted_escape leaves %r unescaped: a phrase containing it re-parses differently" % ch)
    else:
        chk.fail_closed(rid, "anchor not found: %s" % QUOTED_ESCAPE)

    rule_r30c(chk, rules)


NODE_MOD = "datadog::search::node::"
FLOAT_FMT = re.compile(r"(?:Argument::<'_>::new_(display|debug|lower_exp|upper_exp)::<&*(f64|f32)>)|(?:<&*(f64|f32) as std::(?:fmt|string)::(Display|Debug|LowerExp|UpperExp|ToString)>::(?:fmt|to_string))")
EXP_LETTER = {"display": "", "tostring": "", "debug": "e", "lower_exp": "e", "lowerexp": "e", "upper_exp": "E", "upperexp": "E"}


def rule_r30c(chk, rules):
    """numeric alphabet: a float rendered into query text must lex as one NUMERIC_TERM"""
    facts = chk.facts
    rid = "R30c"
    chk.rule(rid, "float formatters used by the query renderers emit only the exponent letters NUMERIC_TERM accepts", floor=1)
    if "NUMERIC_TERM" not in rules:
        chk.fail_closed(rid, "grammar rule NUMERIC_TERM not found")
        return
    accepted = set(re.findall(r'"([eE])"', rules["NUMERIC_TERM"]))
    chk.extra["numeric_term_exponent_letters"] = sorted(accepted)
    names = [n for n in facts.names(lambda n: n.startswith(NODE_MOD))]
    if not names:
        chk.fail_closed(rid, "no bodies under %s" % NODE_MOD)
        return
    chk.extra["r30c_bodies_scanned"] = len(names)
    for n in sorted(names):
        b = facts.body(n)
        for bb, t in b.calls():
            m = FLOAT_FMT.search(t.get("rfn_full") or t.get("fn_full") or "")
            if not m:
                continue
            kind = (m.group(1) or m.group(4)).lower()
            letter = EXP_LETTER.get(kind)
            ok = letter is not None and (letter == "" or letter in accepted)
            d = {"function": n, "formatter": kind, "emits_exponent_letter": letter, "site": b.loc(t)}
            chk.instance(rid, d, ok=ok)
            if not ok:
                chk.violation(rid, b.file, n, "float rendered with %s formatter" % kind,
                              "%s formats a float with the %s formatter, whose output switches to exponent notation with %r for small/large magnitudes; "
                              "NUMERIC_TERM in grammar.pest accepts only %s as exponent letter, so `a:>1E-5` renders as `a:>1e-5` and re-parses as `a:>1` "
                              "followed by a free-text term" % (b.loc(t), kind, letter, sorted(accepted) or "no"), detail=d)
