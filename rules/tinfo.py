"""P-ABS: a small abstract interpreter for MIR bodies of the type checker (`type_info` functions).

It evaluates one body on *abstract* inputs — operand type definitions given as (set of scalar kinds, fallible?) — using
summaries ("models") for the TypeDef / Kind methods the body calls.  With a fixed abstract input every branch condition
in these bodies is a concrete boolean or discriminant, so one evaluation follows exactly one path; the rule that uses
the interpreter enumerates the (finite) abstract inputs.  Nothing of /repo is executed: the MIR facts are interpreted.

Anything the interpreter cannot decide (an unknown value reaching a branch, an unmodelled callee whose result is
branched on) raises Undecided, which the rule reports fail-closed."""
import re
from facts import variant_map

KINDS = ("bytes", "integer", "float", "boolean", "timestamp", "regex", "null", "object", "array")


class Undecided(Exception):
    pass


class Unk:
    def __repr__(self):
        return "UNK"


UNK = Unk()


class TD:
    """abstract TypeDef"""
    def __init__(self, kind, fallible=False):
        self.kind = set(kind)
        self.fallible = bool(fallible)

    def copy(self):
        return TD(self.kind, self.fallible)

    def __repr__(self):
        return "TD(%s%s)" % ("|".join(sorted(self.kind)), ", fallible" if self.fallible else "")


class KD:
    """abstract Kind (also used as a live view onto a TD's kind: `owner`)"""
    def __init__(self, kind=None, owner=None):
        self._kind = set(kind or ())
        self.owner = owner

    @property
    def kind(self):
        return self.owner.kind if self.owner is not None else self._kind

    def set(self, k):
        if self.owner is not None:
            self.owner.kind = set(k)
        else:
            self._kind = set(k)

    def __repr__(self):
        return "KD(%s)" % "|".join(sorted(self.kind))


class ST:
    """abstract TypeState: the set of child expressions whose compile-time effects this state is guaranteed to include ("version label")"""
    def __init__(self, label=()):
        self.label = set(label)

    def copy(self):
        return ST(self.label)

    def __repr__(self):
        return "ST{%s}" % ",".join(sorted(self.label))


class Ref:
    def __init__(self, target):
        self.target = target


class Expr:
    def __init__(self, name):
        self.name = name

    def __repr__(self):
        return "Expr(%s)" % self.name


class Enum:
    """value of a fieldless enum / an aggregate: adt, variant, fields"""
    def __init__(self, adt, variant, fields=None):
        self.adt = adt
        self.variant = variant
        self.fields = fields or {}

    def __eq__(self, other):
        return isinstance(other, Enum) and (self.adt, self.variant) == (other.adt, other.variant) and self.fields == other.fields

    def __hash__(self):
        return hash((self.adt, self.variant))

    def __repr__(self):
        return "%s::%s%s" % (self.adt.rsplit("::", 1)[-1], self.variant, self.fields or "")


def boxed(x):
    """Box<T> as MIR sees it: .0 (Unique) .pointer (NonNull) -> T"""
    return Enum("Box", None, {"0": Enum("Unique", None, {"pointer": Ref(x)})})


NONE = Enum("std::option::Option", "None")


class Interp:
    def __init__(self, facts, exprs, consts=None, max_steps=20000):
        """exprs: name -> TD (what `<expr>.type_info(state).result` is for the operand expressions);
        consts: name -> abstract Option<Value> that resolve_constant returns (default None)"""
        self.facts = facts
        self.exprs = exprs
        self.consts = consts or {}
        self.max_steps = max_steps
        self.steps = 0
        self.trace = []
        self.visited = []
        self.depth = 0
        self.unmodelled = set()

    # -- places -----------------------------------------------------------------------------
    def deref(self, v):
        if isinstance(v, Ref):
            return v.target
        return UNK if v is UNK else v

    def field(self, v, name):
        if isinstance(v, Enum):
            return v.fields.get(name, UNK)
        if isinstance(v, dict):
            return v.get(name, UNK)
        return UNK

    def read(self, fr, p):
        v = fr.get(p["l"], UNK)
        for e in p.get("p", []):
            if e == "*":
                v = self.deref(v)
            elif isinstance(e, dict) and "f" in e:
                v = self.field(v, e["f"])
            elif isinstance(e, dict) and "v" in e:
                pass    # downcast: the value stays
            else:
                v = UNK
        return v

    def write(self, fr, p, val):
        proj = p.get("p", [])
        if not proj:
            fr[p["l"]] = val
            return
        v = fr.get(p["l"], UNK)
        for e in proj[:-1]:
            if e == "*":
                v = self.deref(v)
            elif isinstance(e, dict) and "f" in e:
                v = self.field(v, e["f"])
        last = proj[-1]
        if last == "*":
            tgt = self.deref(v)
            if isinstance(tgt, ST) and isinstance(val, ST):
                tgt.label = set(val.label)
            return
        if isinstance(last, dict) and "f" in last:
            if isinstance(v, Enum):
                v.fields[last["f"]] = val
            elif isinstance(v, dict):
                v[last["f"]] = val
        # writes through `*` to opaque state are irrelevant to the result

    def operand(self, fr, op):
        k = op.get("k")
        if k in ("copy", "move"):
            return self.read(fr, op["p"])
        if k == "const":
            if "bool" in op:
                return bool(op["bool"])
            if "int" in op:
                try:
                    return int(op["int"])
                except (TypeError, ValueError):
                    return UNK
            if op.get("item") and "promoted" not in op and self.facts.has(op["item"]) and self.facts.body(op["item"]).kind in ("const", "static") \
                    and self.depth < 4:
                self.depth += 1
                try:
                    return self.call_body(op["item"], [])
                except Undecided:
                    return UNK
                finally:
                    self.depth -= 1
            if "promoted" in op and op.get("item"):
                pn = "%s::{promoted#%d}" % (op["item"], op["promoted"])
                if self.facts.has(pn):
                    return self.call_body(pn, [])
            if op.get("fn") or op.get("rfn"):
                return ("fn", op.get("rfn") or op.get("fn"))
            return UNK
        return UNK

    # -- discriminants ------------------------------------------------------------------------
    def discr(self, v, adt):
        if isinstance(v, Enum) and v.variant is not None:
            vm = variant_map(self.facts, v.adt if v.adt != "Box" else adt)
            inv = {name: int(i) for i, name in vm.items()}
            if v.variant in inv:
                return inv[v.variant]
        raise Undecided("discriminant of %r (%s)" % (v, adt))

    # -- evaluation ---------------------------------------------------------------------------
    def rvalue(self, fr, rv):
        k = rv["k"]
        if k == "use":
            return self.operand(fr, rv["op"])
        if k in ("ref", "rawptr"):
            return Ref(self.read(fr, rv["p"]))
        if k == "cast":
            return self.operand(fr, rv["op"])
        if k == "discr":
            return self.discr(self.read(fr, rv["p"]), rv.get("adt"))
        if k == "agg":
            ops = [self.operand(fr, o) for o in rv.get("ops", [])]
            names = rv.get("fnames") or [str(i) for i in range(len(ops))]
            e = Enum(rv.get("adt") or "(agg)", rv.get("variant"), dict(zip(names, ops)))
            if rv.get("closure"):
                e.fields["__closure"] = rv["closure"]
            return e
        if k == "binop":
            a, b = self.operand(fr, rv["a"]), self.operand(fr, rv["b"])
            if isinstance(a, (bool, int)) and isinstance(b, (bool, int)) and not isinstance(a, Unk):
                o = rv["op"]
                try:
                    return {"Eq": a == b, "Ne": a != b, "Lt": a < b, "Le": a <= b, "Gt": a > b, "Ge": a >= b, "BitAnd": a & b, "BitOr": a | b,
                            "Sub": a - b, "Add": a + b}.get(o, UNK)
                except TypeError:
                    return UNK
            return UNK
        if k == "unop":
            a = self.operand(fr, rv["a"])
            if rv["op"] == "Not" and isinstance(a, bool):
                return not a
            return UNK
        return UNK

    def call_body(self, name, args):
        b = self.facts.body(name)
        fr = {}
        if b.kind == "closure" and len(args) == 2 and b.argc >= 2 and isinstance(args[1], Enum) and args[1].adt == "(tuple)":
            args = [args[0]] + [args[1].fields[k] for k in sorted(args[1].fields, key=int)]
        for i, a in enumerate(args):
            fr[i + 1] = a
        bb = 0
        while True:
            self.steps += 1
            if self.steps > self.max_steps:
                raise Undecided("step budget exhausted in %s" % name)
            blk = b.blocks[bb]
            for s in blk["s"]:
                self.write(fr, s["d"], self.rvalue(fr, s["rv"]))
            t = blk["t"]
            k = t["k"]
            if k == "goto":
                bb = t["t"]
            elif k in ("drop", "assert"):
                bb = t["t"]
            elif k == "return":
                return fr.get(0, UNK)
            elif k == "switch":
                v = self.operand(fr, t["op"])
                if isinstance(v, bool):
                    v = 1 if v else 0
                if not isinstance(v, int):
                    raise Undecided("%s bb%d (line %s): branch on a value the abstraction does not determine (%r)" % (name, bb, t.get("ln"), v))
                nxt = t["otherwise"]
                for val, tgt in t["targets"]:
                    if str(v) == val:
                        nxt = tgt
                bb = nxt
            elif k == "call":
                cal = b.callee(t)
                args_v = [self.operand(fr, a) for a in t["args"]]
                res = self.model(cal, args_v, t)
                self.write(fr, t["dest"], res)
                if t.get("t") is None:
                    raise Undecided("%s bb%d: diverging call %s" % (name, bb, cal))
                bb = t["t"]
            else:
                raise Undecided("%s bb%d: terminator %s" % (name, bb, k))

    # -- models -------------------------------------------------------------------------------
    def kd(self, v):
        v = self.deref(v)
        if isinstance(v, KD):
            return v
        if isinstance(v, TD):
            return KD(owner=v)
        raise Undecided("expected a Kind, got %r" % (v,))

    def td(self, v):
        v = self.deref(v)
        if isinstance(v, TD):
            return v
        raise Undecided("expected a TypeDef, got %r" % (v,))

    def expr_of(self, v):
        for _ in range(4):
            if isinstance(v, Expr):
                return v
            if isinstance(v, Ref):
                v = v.target
            elif isinstance(v, Enum) and v.adt == "Box":
                v = v.fields["0"].fields["pointer"]
            else:
                break
        raise Undecided("expected an expression, got %r" % (v,))

    def model(self, cal, a, t):
        m = re.search(r"value::kind::builder::<impl value::kind::Kind>::(\w+)$", cal)
        if m:
            n = m.group(1)
            if n in KINDS:
                return KD({n})
            if n.startswith("or_") and n[3:] in KINDS:
                k = self.kd(a[0])
                return KD(k.kind | {n[3:]})
            if n.startswith("remove_") and n[7:] in KINDS:
                k = self.kd(a[0])
                k.set(k.kind - {n[7:]})
                return Enum("(tuple)", None)
            if n.startswith("add_") and n[4:] in KINDS:
                k = self.kd(a[0])
                k.set(k.kind | {n[4:]})
                return Enum("(tuple)", None)
            if n == "any":
                return KD(set(KINDS))
            if n in ("never", "undefined"):
                return KD(set())
            if n in ("object", "array"):
                return KD({n})
        m = re.search(r"value::kind::comparison::<impl value::kind::Kind>::(is|contains)_(\w+)$", cal)
        if m and m.group(2) in KINDS:
            k = self.kd(a[0]).kind
            return (k == {m.group(2)}) if m.group(1) == "is" else (m.group(2) in k or not k)
        m = re.search(r"value::kind::comparison::<impl value::kind::Kind>::(\w+)$", cal)
        if m:
            n = m.group(1)
            k = self.kd(a[0]).kind
            if n == "is_superset":
                o = self.kd(a[1]).kind
                return Enum("std::result::Result", "Ok" if o <= k else "Err", {"0": UNK})
            if n == "is_subset":
                o = self.kd(a[1]).kind
                return Enum("std::result::Result", "Ok" if k <= o else "Err", {"0": UNK})
            if n == "intersects":
                return bool(k & self.kd(a[1]).kind)
            if n == "is_any":
                return k == set(KINDS)
            if n == "is_never":
                return not k
            if n == "is_exact":
                return len(k) == 1 and not (k & {"object", "array", "null"})
            if n == "contains_primitive":
                return bool(k - {"object", "array"})
        if re.search(r"std::result::Result::<T, E>::is_(ok|err)$", cal):
            v = self.deref(a[0])
            if isinstance(v, Enum) and v.variant in ("Ok", "Err"):
                return (v.variant == "Ok") == cal.endswith("is_ok")
            raise Undecided("is_ok on %r" % (v,))
        if re.search(r"std::ops::RangeInclusive::<.*>::new$", cal) and len(a) == 2:
            return Enum("range_inclusive", None, {"start": a[0], "end": a[1]})
        if re.search(r"std::ops::RangeInclusive<.*>::contains(::<.*>)?$|RangeInclusive::<.*>::contains(::<.*>)?$", cal) and len(a) == 2:
            r, x = self.deref(a[0]), self.deref(a[1])
            if isinstance(r, Enum) and r.adt == "range_inclusive" and all(isinstance(v, int) and not isinstance(v, bool) for v in (r.fields["start"], r.fields["end"], x)):
                return r.fields["start"] <= x <= r.fields["end"]
            return UNK
        if re.search(r"std::ops::BitOr(<.*>)?>::bitor$", cal) and len(a) == 2:
            try:
                return KD(self.kd(a[0]).kind | self.kd(a[1]).kind)
            except Undecided:
                return UNK
        if re.search(r"<impl value::kind::Kind>::at_path$|<impl value::kind::Kind>::get$", cal):
            return KD(set(KINDS))
        if re.search(r"<impl value::kind::Kind>::merge_keep$|<impl value::kind::Kind>::merge$", cal):
            return Enum("(tuple)", None)
        if re.search(r"value::kind::builder::<impl value::kind::Kind>::union$|<impl value::kind::Kind>::union$", cal):
            return KD(self.kd(a[0]).kind | self.kd(a[1]).kind)
        m = re.search(r"compiler::type_def::TypeDef::(\w+)$", cal)
        if m:
            n = m.group(1)
            if n in KINDS:
                return TD({n})
            if n == "fallible":
                d = self.td(a[0]); d.fallible = True; return d
            if n == "infallible":
                d = self.td(a[0]); d.fallible = False; return d
            if n == "maybe_fallible":
                d = self.td(a[0])
                if not isinstance(a[1], bool):
                    raise Undecided("maybe_fallible(%r)" % (a[1],))
                d.fallible = a[1]; return d
            if n == "is_fallible":
                return self.td(a[0]).fallible
            if n == "is_infallible":
                return not self.td(a[0]).fallible
            if n == "fallible_unless":
                d = self.td(a[0]); k = self.kd(a[1])
                if not d.kind <= k.kind:
                    d.fallible = True
                return d
            if n in ("union", "merge_overwrite"):
                d, o = self.td(a[0]), self.td(a[1])
                return TD(d.kind | o.kind, d.fallible or o.fallible)
            if n == "with_kind":
                d = self.td(a[0]); d.kind = set(self.kd(a[1]).kind); return d
            if n == "kind":
                return Ref(KD(owner=self.td(a[0])))
            if (n.startswith("or_") or n.startswith("add_")) and n.split("_", 1)[1] in KINDS:
                d = self.td(a[0]); d.kind = d.kind | {n.split("_", 1)[1]}; return d
            if n in ("restrict_array", "restrict_object"):
                d = self.td(a[0]); return TD({n[9:]}, d.fallible)
            if n in ("impure", "pure", "with_purity", "collect_subtypes", "upgrade_undefined"):
                return self.td(a[0])
            if n == "at_path":
                d = self.td(a[0]); return TD(set(KINDS) | set(d.kind), d.fallible)
            if n in ("returns", "returns_mut"):
                return Ref(KD(set()))
            if n == "with_returns":
                return self.td(a[0])
            if n in ("object", "array"):
                return TD({n})
            if n in ("any",):
                return TD(set(KINDS))
            if n in ("never", "undefined"):
                return TD(set())
        if re.search(r"<compiler::type_def::TypeDef as std::ops::Deref(Mut)?>::deref(_mut)?$", cal):
            return Ref(KD(owner=self.td(a[0])))
        if cal.endswith("as std::clone::Clone>::clone"):
            v = self.deref(a[0])
            if isinstance(v, TD):
                return v.copy()
            if isinstance(v, KD):
                return KD(set(v.kind))
            if isinstance(v, Enum):
                return Enum(v.adt, v.variant, dict(v.fields))
            return v
        full = (t.get("fn_full") or "") + " " + (t.get("rfn_full") or "") + " " + cal
        if (re.search(r"as std::convert::(Into|From)<.*>>::(into|from)\b", full) or re.search(r"<impl std::convert::From<.*> for .*>::from\b", full)) and len(a) == 1:
            cal = full
            v = a[0]
            if isinstance(v, int) and not isinstance(v, bool):
                return v
            to_td = re.search(r"Into<compiler::type_def::TypeDef>|<compiler::type_def::TypeDef as std::convert::From| for compiler::type_def::TypeDef>::from\b", cal)
            to_kd = re.search(r"Into<value::kind::Kind>|<value::kind::Kind as std::convert::From| for value::kind::Kind>::from\b", cal)
            if isinstance(v, KD):
                return TD(v.kind) if to_td else v
            if isinstance(v, TD):
                return KD(set(v.kind)) if to_kd else v      # Kind::from(TypeDef) forgets the fallibility
            return UNK
        if cal == "compiler::expression::Expression::apply_type_info" or re.search(r"as compiler::expression::Expression>::apply_type_info$", cal):
            e = self.expr_of(a[0])
            st = self.deref(a[1]) if len(a) > 1 else None
            if isinstance(st, ST):
                st.label.add(e.name)
            self.visited.append(e.name)
            return self.exprs[e.name].copy()
        if re.search(r"as compiler::expression::Expression>::type_info$", cal) or cal == "compiler::expression::Expression::type_info":
            e = self.expr_of(a[0])
            st = self.deref(a[1]) if len(a) > 1 else None
            self.visited.append(e.name)
            out_state = ST(st.label | {e.name}) if isinstance(st, ST) else UNK
            return Enum("compiler::state::TypeInfo", None, {"state": out_state, "result": self.exprs[e.name].copy()})
        if re.search(r"as compiler::expression::Expression>::type_def$", cal) or cal == "compiler::expression::Expression::type_def":
            return self.exprs[self.expr_of(a[0]).name].copy()
        if cal == "<compiler::state::TypeState as std::clone::Clone>::clone":
            st = self.deref(a[0])
            return st.copy() if isinstance(st, ST) else UNK
        if cal == "compiler::state::TypeState::merge":
            x, y = self.deref(a[0]), self.deref(a[1])
            if isinstance(x, ST) and isinstance(y, ST):
                return ST(x.label & y.label)
            return UNK
        if re.search(r"compiler::state::TypeInfo::map_result", cal):
            return a[0]
        if re.search(r"as compiler::expression::Expression>::resolve_constant$", cal) or cal == "compiler::expression::Expression::resolve_constant":
            return self.consts.get(self.expr_of(a[0]).name, NONE)
        if cal == "compiler::state::TypeInfo::new":
            return Enum("compiler::state::TypeInfo", None, {"state": self.deref(a[0]) if isinstance(self.deref(a[0]), ST) else a[0], "result": a[1]})
        if re.search(r"<std::option::Option<T> as std::cmp::PartialEq>::eq$", cal):
            x, y = self.deref(a[0]), self.deref(a[1])
            if isinstance(x, Enum) and isinstance(y, Enum):
                return x == y
            raise Undecided("Option == on %r / %r" % (x, y))
        if re.search(r"std::option::Option::<T>::as_ref$", cal):
            return self.deref(a[0])
        if cal == "compiler::expression::op::constant_arithmetic_produces_nan":
            x, y = self.deref(a[1]), self.deref(a[2])
            if x == NONE or y == NONE:
                return False
            raise Undecided("constant_arithmetic_produces_nan on constants")
        if "::{closure#" in cal and self.facts.has(cal):
            return self.call_body(cal, a)
        mo = re.search(r"std::option::Option::<T>::(and_then|map|is_some_and|is_none_or|filter|or_else|unwrap_or_else|map_or|map_or_else)(::<.*>)?$", cal)
        if mo:
            v = self.deref(a[0])
            op = mo.group(1)
            if isinstance(v, Enum) and v.adt == "std::option::Option":
                if v.variant == "None":
                    if op in ("and_then", "map", "filter"):
                        return NONE
                    if op == "is_some_and":
                        return False
                    if op == "is_none_or":
                        return True
                    if op == "map_or" and len(a) >= 2:
                        return a[1]
                else:
                    cl = a[-1]
                    cname = cl.fields.get("__closure") if isinstance(cl, Enum) else None
                    if cname and self.facts.has(cname):
                        r = self.call_body(cname, [Ref(cl), Enum("(tuple)", None, {"0": v.fields.get("0", UNK)})])
                        if op == "map":
                            return Enum("std::option::Option", "Some", {"0": r})
                        if op in ("and_then", "is_some_and", "is_none_or", "map_or"):
                            return r
            return UNK
        m = re.search(r"std::option::Option::<.*>::(is_none|is_some|expect|unwrap|unwrap_or_default)$", cal.replace("<T>", "<.>")) or \
            re.search(r"std::option::Option::<T>::(is_none|is_some|expect|unwrap)$", cal)
        if m:
            v = self.deref(a[0])
            if isinstance(v, Enum) and v.adt == "std::option::Option":
                if m.group(1) == "is_none":
                    return v.variant == "None"
                if m.group(1) == "is_some":
                    return v.variant == "Some"
                if v.variant == "Some":
                    return v.fields.get("0", UNK)
                raise Undecided("unwrap of None")
            return UNK
        # local helpers of the stdlib (`fn type_def() -> TypeDef`, json_type_def, ...) are interpreted, not summarised
        if self.facts.has(cal) and (cal.startswith("stdlib::") or cal.startswith("<stdlib::")) and self.depth < 4:
            self.depth += 1
            try:
                return self.call_body(cal, a)
            finally:
                self.depth -= 1
        if re.search(r"core::panicking::|std::fmt::Arguments", cal):
            if "panicking" in cal:
                raise Undecided("reaches a panic (%s)" % cal)
            return UNK
        self.unmodelled.add(cal)
        return UNK


def evaluate_type_info(facts, body_name, self_value, exprs, consts=None):
    """abstractly evaluate `<X as Expression>::type_info(&self, &state)`; returns the TD of TypeInfo.result"""
    it = Interp(facts, exprs, consts)
    res = it.call_body(body_name, [Ref(self_value), Ref(ST())])
    it.final_state = res.fields.get("state") if isinstance(res, Enum) else None
    r = res.fields.get("result") if isinstance(res, Enum) else None
    if not isinstance(r, TD):
        raise Undecided("no TypeDef result (%r); unmodelled callees: %s" % (res, sorted(it.unmodelled)[:3]))
    return r, it
