"""C33 — diagnostics are renderable and point into the source (span arithmetic discipline)."""
import re
from facts import op_local, op_place, uses_of
import cfgq

SPAN_NEW = "diagnostic::span::Span::new"
FORMATTER_FMT = "<diagnostic::formatter::Formatter<'_> as std::fmt::Display>::fmt"
SUB_EXEMPT = {
    ("compiler::expression::assignment::Assignment::new", "expr_span.start() - 1"):
        "the assignment target and `=` always precede the expression, so expr_span.start() >= 1",
}


def expr_of(b, op, depth=0):
    """small expression tree of an integer operand: ('const',v) | ('arg',n) | ('call',callee,[args]) | (binop,a,b) | ('local',l)"""
    if op.get("k") == "const":
        return ("const", op.get("int"))
    p = op_place(op)
    if p is None:
        return ("?",)
    l = p["l"]
    if depth > 7:
        return ("local", l)
    if 1 <= l <= b.argc and not p.get("p"):
        return ("arg", l)
    if p.get("p"):
        fields = [e["f"] for e in p["p"] if isinstance(e, dict) and "f" in e]
        # `.0` of a checked-arithmetic pair
        ds = b.defs().get(l, [])
        if fields == ["0"] and len(ds) == 1 and ds[0][0] == "stmt" and ds[0][3]["rv"]["k"] == "binop" and ds[0][3]["rv"]["op"].endswith("WithOverflow"):
            rv = ds[0][3]["rv"]
            return (rv["op"].replace("WithOverflow", ""), expr_of(b, rv["a"], depth + 1), expr_of(b, rv["b"], depth + 1))
        return ("place", l, tuple(fields))
    ds = b.defs().get(l, [])
    if len(ds) != 1:
        return ("local", l)
    kind, bb, si, x = ds[0]
    if kind == "call":
        return ("call", b.callee(x), [expr_of(b, a, depth + 1) for a in x["args"]], x.get("rfn_full") or "")
    rv = x["rv"]
    if rv["k"] in ("use", "cast"):
        return expr_of(b, rv["op"], depth + 1)
    if rv["k"] == "binop":
        return (rv["op"].replace("WithOverflow", ""), expr_of(b, rv["a"], depth + 1), expr_of(b, rv["b"], depth + 1))
    if rv["k"] == "ref":
        return expr_of(b, {"k": "copy", "p": rv["p"]}, depth + 1)
    return ("local", l)


def walk(e):
    yield e
    if e[0] in ("Add", "Sub", "Mul", "Div", "Rem", "Shl", "Shr", "BitAnd", "BitOr"):
        for x in e[1:3]:
            yield from walk(x)
    elif e[0] == "call":
        pass   # calls are unit boundaries: do not look inside their arguments


def run(chk):
    facts = chk.facts
    chk.explanation = (
        "Decides three shape clauses about how label spans are computed, not that their numbers are right. R33a: every subtraction that flows into a "
        "Span::new argument (without an intervening call) is saturating/checked, or is a frozen site with a one-line reason. R33b: Formatter's Display impl "
        "maps rendering/UTF-8 errors to fmt::Error and contains no unwrap/expect. R33c (unit confusion): a value measured in characters — the result of "
        "Chars::count, or a usize used to index a Vec<char>/[char] — never flows arithmetically into a Span::new argument; spans are byte offsets, so a "
        "character count is only right for ASCII. Undecided: numeric correctness of byte-unit spans, spans acknowledged approximate upstream (#206).")
    rid_a, rid_c = "R33a", "R33c"
    chk.rule(rid_a, "subtractions reaching a Span::new argument are saturating/checked or frozen with a reason", floor=25)
    chk.rule(rid_c, "no character-unit quantity flows arithmetically into a Span::new argument", floor=25)
    n_sites = 0
    for i in facts.index:
        if SPAN_NEW not in i["callees"]:
            continue
        b = facts.body(i["name"])
        if "/build/" in b.file:
            continue
        # character-unit locals of this body
        char_locals = set()
        for bb, t in b.calls():
            cal = b.callee(t)
            full = t.get("rfn_full") or ""
            if cal.endswith("Iterator::count") or cal.endswith("Iterator>::count"):
                if "std::str::Chars" in full or "str::Chars" in (b.local_ty(op_local(t["args"][0])) if op_local(t["args"][0]) is not None else ""):
                    char_locals.add(t["dest"]["l"])
            if re.search(r"Index<usize>>::index$|IndexMut<usize>>::index_mut$|::get$|::get_mut$", cal) and ("Vec<char>" in full or "[char]" in full):
                l = op_local(t["args"][1]) if len(t["args"]) > 1 else None
                if l is not None:
                    for x in cfgq.ref_chain(b, l):
                        char_locals.add(x)
        for bi, si, s in b.iter_stmts():
            # direct indexing chars[pos] lowers to an Index projection
            for op in [s["rv"].get("op")] + [s["rv"].get("p")] if False else []:
                pass
        for bi, blk in enumerate(b.blocks):
            for s in blk["s"]:
                rv = s["rv"]
                plc = op_place(rv["op"]) if rv["k"] in ("use", "cast") else rv.get("p") if rv["k"] == "ref" else None
                if plc is not None:
                    for e in plc.get("p", []):
                        if isinstance(e, dict) and "idx" in e and ("char" in b.local_ty(plc["l"])):
                            for x in cfgq.ref_chain(b, e["idx"]):
                                char_locals.add(x)
        for bb, t in b.calls():
            if b.callee(t) != SPAN_NEW:
                continue
            n_sites += 1
            trees = [expr_of(b, a) for a in t["args"]]
            subs = [e for tr in trees for e in walk(tr) if e[0] == "Sub"]
            d = {"fn": i["name"], "at": "%s:%s" % (b.file, t["ln"]), "raw_subtractions": len(subs)}
            desc = None
            if subs:
                # describe as "<x> - <const>" for the exemption table
                e = subs[0]
                rhs = e[2]
                lhs = e[1]
                if rhs[0] == "const" and lhs[0] == "call" and lhs[1].endswith("Span::start"):
                    desc = "expr_span.start() - %s" % rhs[1]
            key = (i["name"], desc)
            if subs and key in SUB_EXEMPT:
                d["exempt"] = SUB_EXEMPT[key]
                chk.instance(rid_a, d, ok=True)
            elif subs:
                chk.instance(rid_a, d, ok=False)
                chk.violation(rid_a, b.file, i["name"], "unchecked subtraction into Span::new",
                              "a Span::new argument is computed with a plain `-` (panics / wraps when the left side is smaller); use saturating_sub or "
                              "add the site to the reviewed table", detail=d, loc=d["at"])
            else:
                chk.instance(rid_a, d, ok=True)
            # unit confusion
            tainted = []
            for tr in trees:
                for e in walk(tr):
                    if e[0] == "local" and e[1] in char_locals:
                        tainted.append(e[1])
                    if e[0] == "call" and (e[1].endswith("Iterator::count") or e[1].endswith("Iterator>::count")) and "Chars" in (e[3] or ""):
                        tainted.append("chars().count()")
                    if e[0] == "place" and e[1] in char_locals:
                        tainted.append(e[1])
            # also direct locals
            for a in t["args"]:
                l = op_local(a)
                if l is not None and any(x in char_locals for x in cfgq.ref_chain(b, l)):
                    tainted.append(l)
            d2 = {"fn": i["name"], "at": "%s:%s" % (b.file, t["ln"]), "character_unit_inputs": [str(x) for x in tainted][:4]}
            chk.instance(rid_c, d2, ok=not tainted)
            if tainted:
                chk.violation(rid_c, b.file, i["name"], "character count used as byte offset",
                              "a Span::new argument is computed from a quantity measured in characters (%s): for a source with a multi-byte character "
                              "before the label, the label no longer lies on a character boundary / covers the wrong text" % tainted[0], detail=d2, loc=d2["at"])
    chk.extra["span_new_sites"] = n_sites

    rid = "R33d"
    chk.rule(rid, "lexer Error::offset_by shifts every position field of every variant by `offset` (nested-lexer errors point into the whole source)", floor=7)
    OFFSET_BY = "parser::lex::Error::offset_by"
    LEX_ERR = "parser::lex::Error"
    ob = chk.anchor(OFFSET_BY, rid)
    adt = facts.adts.get(LEX_ERR)
    if ob is not None and adt:
        from varflow import VarFlow, MOVED
        pos_fields = {}
        for v in adt["variants"]:
            pf = [f for f, ty in zip(v["fields"], v.get("ftys", [])) if ty == "usize" or ty.endswith("span::Span")]
            pos_fields[v["name"]] = pf
        shifted = {}       # variant -> set(fields shifted)
        for bi, si, s in ob.iter_stmts():
            rv = s["rv"]
            if rv["k"] == "agg" and rv.get("adt") == LEX_ERR:
                for nme, op in zip(rv.get("fnames", []), rv["ops"]):
                    tr = expr_of(ob, op)

                    def has_offset(e):
                        if e[0] == "Add":
                            return any(x == ("arg", 2) or has_offset(x) for x in e[1:3])
                        if e[0] == "call":
                            return any(has_offset(a) for a in e[2])
                        return False
                    if has_offset(tr):
                        shifted.setdefault(rv["variant"], set()).add(nme)
        # variants handed back unchanged
        vf = VarFlow(facts, ob, extra_locals=[1])
        unchanged = set()

        def on_stmt(bb, si, s, st):
            if s["d"]["l"] == 0 and not s["d"].get("p") and s["rv"]["k"] == "use":
                p = op_place(s["rv"]["op"])
                if p is not None and p["l"] == 1 and not p.get("p"):
                    v = st.get("_1")
                    unchanged.update(set(v) - {MOVED} if v is not None else set(pos_fields))
        vf.run(on_stmt=on_stmt)
        for vname, pf in sorted(pos_fields.items()):
            missing = [f for f in pf if f not in shifted.get(vname, set())]
            d = {"variant": vname, "position_fields": pf, "shifted": sorted(shifted.get(vname, set())), "returned_unchanged": vname in unchanged}
            ok = not pf or (not missing and vname not in unchanged)
            chk.instance(rid, d, ok=ok)
            if not ok:
                chk.violation(rid, ob.file, OFFSET_BY, "variant %s not shifted" % vname,
                              "Error::%s carries position field(s) %s that offset_by does not shift: an error from a nested lexer (inside `[..]`, `{..}`, "
                              "`(..)`) is reported relative to the slice, so its label points at unrelated text" % (vname, missing or pf), detail=d)

    rid = "R33b"
    chk.rule(rid, "Formatter::fmt and its helpers: no unwrap/expect/indexing; rendering and UTF-8 errors become fmt::Error", floor=1)
    cands = [n for n in facts.names() if n.startswith("<diagnostic::formatter::Formatter") and n.endswith("::fmt") and "Display" in n]
    if not cands:
        chk.fail_closed(rid, "Formatter's Display::fmt not found")
    for n in cands:
        # fmt, its closures, and the local helpers of the formatter module it calls
        seen_, _e, _p = facts.reach([n], stop=lambda c: not (c.startswith("diagnostic::formatter") or c.startswith("<diagnostic::formatter")))
        fam = [facts.body(x) for x in sorted(set(facts.family(n)) | set(seen_))]
        bad = []
        maps = 0
        for fb in fam:
            for bb, t in fb.calls():
                cal = fb.callee(t)
                if re.search(r"::(unwrap|expect|unwrap_unchecked)$", cal):
                    bad.append((cal, t["ln"]))
                if re.search(r"as std::ops::Index(Mut)?<.*>>::index(_mut)?$", cal):
                    bad.append(("indexing " + cal.split(" as ")[0].lstrip("<"), t["ln"]))
                if cal.endswith("::map_err") or cal.endswith("Try>::branch"):
                    maps += 1
            for bb, t in fb.iter_terms("assert"):
                if "BoundsCheck" in (t.get("msg") or ""):
                    bad.append(("slice index (bounds check)", t["ln"]))
        d = {"fn": n, "panicky_calls": bad, "error_mappings": maps}
        ok = not bad and maps >= 1
        chk.instance(rid, d, ok=ok)
        if not ok:
            chk.violation(rid, fam[0].file, n, "Formatter::fmt can panic", "rendering a diagnostic uses %s: a rendering or UTF-8 error panics instead of "
                          "returning fmt::Error" % (bad[0][0] if bad else "no error mapping"), detail=d)
