"""P-VAR: path-partitioned variant/boolean refinement over one MIR body.

Abstract state: dict  place-key -> frozenset of facts
   * for enum-typed places: the set of variant names the place may hold, plus the pseudo-variant
     'MOVED' (the place was moved out of on this path)
   * for bool locals (drop flags, conditions): subset of {'true','false'}
   * for integer locals switched on: subset of value strings, or absent = unknown
A key that is absent means "unknown / any".

The engine keeps states of different paths apart (trace partitioning) up to MAX_PART states per
block, after which states are joined (union per key, key dropped if absent on one side).
Nothing is executed: this is an abstract interpretation of the CFG with a finite domain.
"""
import re
from collections import defaultdict
from facts import op_local, op_place, proj_str, variant_map

MAX_PART = 48
MOVED = "MOVED"


def pkey(p):
    return proj_str(p)


def tuple_field_alias(body):
    """(local, field) -> place, for locals defined once as a tuple aggregate of reference copies:
    `_3 = (copy _1, copy _2)` makes `(*(_3.0))` the same place as `(*_1)`"""
    out = {}
    for l, ds in body.defs().items():
        if len(ds) != 1 or ds[0][0] != "stmt":
            continue
        rv = ds[0][3]["rv"]
        if rv["k"] == "agg" and rv.get("adt") == "(tuple)" and not ds[0][3]["d"].get("p"):
            for i, op in enumerate(rv["ops"]):
                sp = op_place(op)
                if sp is not None and body.local_ty(l).startswith("(&"):
                    out[(l, str(i))] = sp
    return out


def ref_equalities(body, ta):
    """local -> local holding the same reference value (`_24 = copy _3.0` where `_3 = (copy _1, ..)` gives _24 -> _1)"""
    out = {}
    defs = body.defs()
    for _ in range(4):
        for l, ds in defs.items():
            if l in out or len(ds) != 1 or ds[0][0] != "stmt" or ds[0][3]["d"].get("p"):
                continue
            if not body.local_ty(l).startswith("&"):
                continue
            rv = ds[0][3]["rv"]
            if rv["k"] != "use":
                continue
            sp = op_place(rv["op"])
            if sp is None:
                continue
            pr = sp.get("p", [])
            if not pr:
                out[l] = out.get(sp["l"], sp["l"])
            elif len(pr) == 1 and isinstance(pr[0], dict) and "f" in pr[0] and (sp["l"], pr[0]["f"]) in ta:
                q = ta[(sp["l"], pr[0]["f"])]
                if not q.get("p"):
                    out[l] = out.get(q["l"], q["l"])
    return out


def strip_deref_alias(body, p, alias):
    """canonicalise (*_n).rest where _n = &q  into q.rest"""
    proj = p.get("p", [])
    l = p["l"]
    guard = 0
    ta = getattr(body, "_tuple_alias", None)
    if ta is None:
        ta = tuple_field_alias(body)
        body._tuple_alias = ta
    re_ = getattr(body, "_refeq", None)
    if re_ is None:
        re_ = ref_equalities(body, ta)
        body._refeq = re_
    if proj and proj[0] == "*" and l in re_ and l not in alias:
        l = re_[l]
    if len(proj) >= 2 and isinstance(proj[0], dict) and "f" in proj[0] and proj[1] == "*" and (l, proj[0]["f"]) in ta:
        q = ta[(l, proj[0]["f"])]
        l = q["l"]
        proj = list(q.get("p", [])) + list(proj[1:])
    while proj and proj[0] == "*" and l in alias and guard < 8:
        q = alias[l]
        l = q["l"]
        proj = list(q.get("p", [])) + list(proj[1:])
        guard += 1
    out = {"l": l}
    if proj:
        out["p"] = proj
    return out


def ref_aliases(body):
    """local -> place it is a reference to, when the local has exactly one definition `&place`
    (or a copy/move of such a local)"""
    defs = body.defs()
    alias = {}
    changed = True
    rounds = 0
    while changed and rounds < 6:
        changed = False
        rounds += 1
        for l, ds in defs.items():
            if l in alias or len(ds) != 1 or ds[0][0] != "stmt":
                continue
            rv = ds[0][3]["rv"]
            if ds[0][3]["d"].get("p"):
                continue
            if rv["k"] == "ref":
                alias[l] = rv["p"]
                changed = True
            elif rv["k"] == "use":
                src = op_place(rv["op"])
                if src is not None and not src.get("p") and src["l"] in alias:
                    alias[l] = alias[src["l"]]
                    changed = True
    return alias


ASCII_SETS = {
    "is_ascii_digit": ((48, 57),),
    "is_ascii_lowercase": ((97, 122),),
    "is_ascii_uppercase": ((65, 90),),
    "is_ascii_alphabetic": ((65, 90), (97, 122)),
    "is_ascii_alphanumeric": ((48, 57), (65, 90), (97, 122)),
    "is_ascii_hexdigit": ((48, 57), (65, 70), (97, 102)),
    "is_ascii_whitespace": ((9, 10), (12, 13), (32, 32)),
    "is_ascii_punctuation": ((33, 47), (58, 64), (91, 96), (123, 126)),
    "is_ascii_graphic": ((33, 126),),
    "is_ascii_control": ((0, 31), (127, 127)),
    "is_ascii": ((0, 127),),
}


class VarFlow:
    def __init__(self, facts, body, extra_locals=()):
        self.facts = facts
        self.body = body
        self.alias = ref_aliases(body)
        self.defs = body.defs()
        self.rel = self._relevant_locals(extra_locals)
        self.cmp_pred = self._comparison_predicates()
        for b_, (op_, v_, c_) in self.cmp_pred.items():
            self.rel.add(b_)
        # results
        self.in_states = defaultdict(list)   # bb -> list of states (dict)
        self.events = []                     # (bb, kind, payload, state)

    def _relevant_locals(self, extra):
        """locals whose abstract value can matter: those that are discriminant-tested or switched
        on, the drop/absorb places the caller names, and everything connected to them through
        plain copies/moves/aggregates (both directions)."""
        body = self.body
        rel = set(extra)
        for bi, t in body.iter_terms("switch"):
            l = op_local(t["op"])
            if l is None:
                continue
            rel.add(l)
            for kind, b2, si, x in self.defs.get(l, []):
                if kind == "stmt" and x["rv"]["k"] == "discr":
                    rel.add(self.canon(x["rv"]["p"])["l"])
        edges = []
        for bi, si, s in body.iter_stmts():
            rv = s["rv"]
            d = self.canon(s["d"])["l"]
            if rv["k"] == "use":
                sp = op_place(rv["op"])
                if sp is not None:
                    edges.append((d, self.canon(sp)["l"]))
            elif rv["k"] == "agg":
                for op in rv["ops"]:
                    sp = op_place(op)
                    if sp is not None:
                        edges.append((d, self.canon(sp)["l"]))
            elif rv["k"] == "unop":
                sp = op_place(rv["a"])
                if sp is not None:
                    edges.append((d, self.canon(sp)["l"]))
        changed = True
        while changed:
            changed = False
            for a, b in edges:
                if a in rel and b not in rel:
                    rel.add(b); changed = True
                elif b in rel and a not in rel:
                    rel.add(a); changed = True
        return rel

    def _comparison_predicates(self):
        """bool local -> (op, value local, constant) for `b = op(value, const)` / `b = op(const, value)` (normalised to value-on-the-left)"""
        out = {}
        flip = {"Lt": "Gt", "Le": "Ge", "Gt": "Lt", "Ge": "Le", "Eq": "Eq", "Ne": "Ne"}
        for bi, si, s in self.body.iter_stmts():
            rv = s["rv"]
            if rv["k"] != "binop" or rv["op"] not in flip or s["d"].get("p"):
                continue
            a, b = rv["a"], rv["b"]

            def cval(o):
                if o.get("k") != "const":
                    return None
                for k in ("int", "char"):
                    if k in o:
                        try:
                            return int(o[k])
                        except (TypeError, ValueError):
                            return None
                return None
            ca, cb = cval(a), cval(b)

            def root(l):
                # `_t = copy _c; Le(const, move _t)`: the predicate is about _c
                for _ in range(6):
                    ds = self.defs.get(l, [])
                    if len(ds) != 1 or ds[0][0] != "stmt" or ds[0][3]["d"].get("p"):
                        break
                    r2 = ds[0][3]["rv"]
                    if r2["k"] != "use":
                        break
                    sp = op_place(r2["op"])
                    if sp is None or sp.get("p"):
                        break
                    l = sp["l"]
                return l
            if ca is None and cb is not None and op_local(a) is not None and not op_place(a).get("p"):
                out[s["d"]["l"]] = (rv["op"], root(op_local(a)), cb)
            elif cb is None and ca is not None and op_local(b) is not None and not op_place(b).get("p"):
                out[s["d"]["l"]] = (flip[rv["op"]], root(op_local(b)), ca)
        # well-known library predicates over one char / byte: `b = c.is_ascii_digit()` is a membership test in a fixed set
        for bi, t in self.body.iter_terms("call"):
            m = re.search(r"(?:char::methods::<impl char>|core::num::<impl u8>|ascii::ascii_char::AsciiChar)::(is_ascii_\w+)$", self.body.callee(t))
            if not m or m.group(1) not in ASCII_SETS or not t["args"] or t["dest"].get("p"):
                continue
            l = op_local(t["args"][0])
            if l is None or op_place(t["args"][0]).get("p"):
                continue
            # by-reference receiver: `_r = &_c`
            for _ in range(4):
                ds = self.defs.get(l, [])
                if len(ds) != 1 or ds[0][0] != "stmt" or ds[0][3]["d"].get("p"):
                    break
                r2 = ds[0][3]["rv"]
                if r2["k"] == "ref" and not r2["p"].get("p"):
                    l = r2["p"]["l"]
                elif r2["k"] == "use" and op_place(r2["op"]) is not None and not op_place(r2["op"]).get("p"):
                    l = op_place(r2["op"])["l"]
                else:
                    break
            out[t["dest"]["l"]] = ("In", l, ASCII_SETS[m.group(1)])
        return out

    FULL = ((-(1 << 63), (1 << 64)),)

    @staticmethod
    def iv_intersect(ivs, lo, hi):
        out = []
        for a, b in ivs:
            x, y = max(a, lo), min(b, hi)
            if x <= y:
                out.append((x, y))
        return tuple(out)

    @staticmethod
    def iv_subtract(ivs, lo, hi):
        out = []
        for a, b in ivs:
            if hi < a or lo > b:
                out.append((a, b))
                continue
            if a < lo:
                out.append((a, lo - 1))
            if b > hi:
                out.append((hi + 1, b))
        return tuple(out)

    def refine_interval(self, st, vlocal, op, c, outcome):
        """returns new interval tuple for value local after `op(value, c)` evaluated to outcome, or None if infeasible"""
        key = "_%d#iv" % vlocal
        cur = st.get(key)
        ivs = tuple(sorted(cur)) if cur is not None else self.FULL
        lo, hi = self.FULL[0]
        if op == "In":
            if outcome:
                new = ()
                for a_, b_ in c:
                    new += self.iv_intersect(ivs, a_, b_)
                new = tuple(sorted(new))
            else:
                new = ivs
                for a_, b_ in c:
                    new = self.iv_subtract(new, a_, b_)
            return key, new
        if not outcome:
            op = {"Lt": "Ge", "Le": "Gt", "Gt": "Le", "Ge": "Lt", "Eq": "Ne", "Ne": "Eq"}[op]
        if op == "Lt":
            new = self.iv_intersect(ivs, lo, c - 1)
        elif op == "Le":
            new = self.iv_intersect(ivs, lo, c)
        elif op == "Gt":
            new = self.iv_intersect(ivs, c + 1, hi)
        elif op == "Ge":
            new = self.iv_intersect(ivs, c, hi)
        elif op == "Eq":
            new = self.iv_intersect(ivs, c, c)
        else:
            new = self.iv_subtract(ivs, c, c)
        return key, new

    def canon(self, p):
        return strip_deref_alias(self.body, p, self.alias)

    def key(self, p):
        return pkey(self.canon(p))

    # -- helpers ---------------------------------------------------------------------------
    @staticmethod
    def freeze(st):
        return tuple(sorted((k, tuple(sorted(v))) for k, v in st.items()))

    @staticmethod
    def join(a, b):
        out = {}
        for k, v in a.items():
            if k in b:
                out[k] = v | b[k]
        return out

    def kill(self, st, key):
        for k in list(st.keys()):
            if k == key or k.startswith(key + ".") or k.startswith(key + " as ") or k.startswith("(*" + key + ")") \
                    or k == key + "#iv" or k == key + " !=":
                del st[k]

    def all_variants(self, adt):
        return frozenset(variant_map(self.facts, adt).values())

    def discr_of_switch(self, bb):
        """if block bb ends in switchInt on a discriminant read, return (place, adt)"""
        t = self.body.term(bb)
        if t["k"] != "switch":
            return None
        l = op_local(t["op"])
        if l is None:
            return None
        ds = self.defs.get(l, [])
        if len(ds) != 1 or ds[0][0] != "stmt":
            return None
        rv = ds[0][3]["rv"]
        if rv["k"] != "discr" or not rv.get("adt"):
            return None
        return rv["p"], rv["adt"]

    # -- transfer --------------------------------------------------------------------------
    def transfer_stmt(self, st, s):
        d = s["d"]
        rv = s["rv"]
        k = rv["k"]
        cd = self.canon(d)
        if k == "setdiscr":
            return
        if cd["l"] not in self.rel:
            # still account for whole-local moves out of relevant places
            if k == "use":
                op = rv["op"]
                sp = op_place(op)
                if sp is not None and op["k"] == "move" and not sp.get("p") and sp["l"] in self.rel:
                    sk = self.key(sp)
                    self.kill(st, sk)
                    st[sk] = frozenset([MOVED])
            elif k == "agg":
                for op in rv["ops"]:
                    sp = op_place(op)
                    if sp is not None and op["k"] == "move" and not sp.get("p") and sp["l"] in self.rel:
                        sk = self.key(sp)
                        self.kill(st, sk)
                        st[sk] = frozenset([MOVED])
            return
        dk = pkey(cd)
        self.kill(st, dk)
        if k == "use":
            op = rv["op"]
            sp = op_place(op)
            if sp is not None:
                sk = self.key(sp)
                # copy nested knowledge
                for kk in list(st.keys()):
                    if kk == sk:
                        st[dk] = st[kk]
                    elif kk.startswith(sk + ".") or kk.startswith(sk + " as "):
                        st[dk + kk[len(sk):]] = st[kk]
                if op["k"] == "move" and not sp.get("p"):
                    self.kill(st, sk)
                    st[sk] = frozenset([MOVED])
            elif op.get("k") == "const":
                if "bool" in op:
                    st[dk] = frozenset(["true" if op["bool"] else "false"])
                elif "int" in op:
                    st[dk] = frozenset([str(op["int"])])
        elif k == "agg":
            if rv.get("variant") is not None and rv.get("adt", "").startswith("(") is False:
                st[dk] = frozenset([rv["variant"]])
                # remember variant of by-value enum operands nested as fields
                a = self.facts.adts.get(rv["adt"])
                if a:
                    fn = rv.get("fnames", [])
                    for i, op in enumerate(rv["ops"]):
                        sp = op_place(op)
                        if sp is not None and i < len(fn):
                            sk = self.key(sp)
                            if sk in st:
                                st["%s as %s.%s" % (dk, rv["variant"], fn[i])] = st[sk]
            for op in rv["ops"]:
                sp = op_place(op)
                if sp is not None and op["k"] == "move" and not sp.get("p"):
                    sk = self.key(sp)
                    self.kill(st, sk)
                    st[sk] = frozenset([MOVED])
        elif k == "unop" and rv["op"] == "Not":
            sp = op_place(rv["a"])
            if sp is not None:
                v = st.get(self.key(sp))
                if v is not None and v <= {"true", "false"}:
                    st[dk] = frozenset({"true": "false", "false": "true"}[x] for x in v)

    def transfer_term_common(self, st, t):
        """effects of the terminator itself that hold on every out-edge"""
        k = t["k"]
        if k == "call":
            for a in t["args"]:
                sp = op_place(a)
                if sp is not None and a["k"] == "move" and not sp.get("p") and sp["l"] in self.rel:
                    sk = self.key(sp)
                    self.kill(st, sk)
                    st[sk] = frozenset([MOVED])
            cd = self.canon(t["dest"])
            if cd["l"] in self.rel:
                self.kill(st, pkey(cd))
        elif k == "drop":
            cd = self.canon(t["p"])
            if cd["l"] in self.rel:
                sk = pkey(cd)
                self.kill(st, sk)
                st[sk] = frozenset([MOVED])

    def edges(self, bb, st):
        """yield (succ, state) for each feasible out-edge"""
        body = self.body
        t = body.term(bb)
        k = t["k"]
        if k == "switch":
            dsw = self.discr_of_switch(bb)
            if dsw is not None:
                place, adt = dsw
                key = self.key(place)
                vm = variant_map(self.facts, adt)
                cur = st.get(key)
                allv = frozenset(vm.values())
                curv = (cur - {MOVED}) if cur is not None else allv
                explicit = set()
                for val, tgt in t["targets"]:
                    vname = vm.get(val)
                    if vname is None:
                        continue
                    explicit.add(vname)
                    if vname in curv:
                        ns = dict(st)
                        ns[key] = frozenset([vname])
                        yield tgt, ns
                rest = curv - explicit
                if rest:
                    ns = dict(st)
                    ns[key] = frozenset(rest)
                    yield t["otherwise"], ns
                return
            # plain switch on a bool / int local
            sp = op_place(t["op"])
            if sp is not None and t.get("ty") == "bool" and not sp.get("p") and sp["l"] in self.cmp_pred:
                op_, vl_, c_ = self.cmp_pred[sp["l"]]
                for val, tgt in list(t["targets"]) + [("other", t["otherwise"])]:
                    if val == "other":
                        explicit_vals = {v for v, _ in t["targets"]}
                        outcomes = [o for o in (False, True) if ("1" if o else "0") not in explicit_vals]
                    else:
                        outcomes = [val != "0"]
                    for outcome in outcomes:
                        k_, new_ = self.refine_interval(st, vl_, op_, c_, outcome)
                        if not new_:
                            continue
                        ns = dict(st)
                        ns[k_] = frozenset(new_)
                        ns[self.key(sp)] = frozenset(["true" if outcome else "false"])
                        yield tgt, ns
                return
            if sp is not None and t.get("ty") in ("char", "u8", "u32", "u16", "i64", "usize", "u64", "i32") and not sp.get("p"):
                # value switch: refine the interval view as well as the singleton view
                rl = sp["l"]
                for _ in range(6):
                    ds_ = self.defs.get(rl, [])
                    if len(ds_) != 1 or ds_[0][0] != "stmt" or ds_[0][3]["d"].get("p") or ds_[0][3]["rv"]["k"] != "use":
                        break
                    sp2 = op_place(ds_[0][3]["rv"]["op"])
                    if sp2 is None or sp2.get("p"):
                        break
                    rl = sp2["l"]
                kiv = "_%d#iv" % rl
                cur_iv = tuple(sorted(st[kiv])) if st.get(kiv) is not None else self.FULL
                rest_iv = cur_iv
                key = self.key(sp)
                for val, tgt in t["targets"]:
                    try:
                        v = int(val)
                    except ValueError:
                        continue
                    hit = self.iv_intersect(cur_iv, v, v)
                    rest_iv = self.iv_subtract(rest_iv, v, v)
                    if hit:
                        ns = dict(st)
                        ns[kiv] = frozenset(hit)
                        ns[key] = frozenset([val])
                        yield tgt, ns
                if rest_iv:
                    ns = dict(st)
                    ns[kiv] = frozenset(rest_iv)
                    prev = ns.get(key + " !=", frozenset())
                    ns[key + " !="] = frozenset(prev | {v for v, _ in t["targets"]})
                    ns.pop(key, None)
                    yield t["otherwise"], ns
                return
            if sp is not None:
                key = self.key(sp)
                cur = st.get(key)
                is_bool = t.get("ty") == "bool"
                explicit = set()
                for val, tgt in t["targets"]:
                    name = ("false" if val == "0" else "true") if is_bool else val
                    explicit.add(name)
                    if cur is None or name in cur:
                        ns = dict(st)
                        ns[key] = frozenset([name])
                        yield tgt, ns
                if is_bool:
                    rest = {"true", "false"} - explicit
                    if cur is not None:
                        rest &= cur
                    if rest:
                        ns = dict(st)
                        ns[key] = frozenset(rest)
                        yield t["otherwise"], ns
                else:
                    if cur is None or (cur - explicit):
                        ns = dict(st)
                        if cur is not None:
                            ns[key] = frozenset(cur - explicit)
                        else:
                            prev = ns.get(key + " !=", frozenset())
                            ns[key + " !="] = frozenset(prev | explicit)
                        yield t["otherwise"], ns
                return
            for s in body.succ(bb):
                yield s, dict(st)
            return
        for s in body.succ(bb):
            yield s, dict(st)

    # -- driver ----------------------------------------------------------------------------
    def run(self, init=None, on_stmt=None, on_term=None, max_iter=200000):
        """on_stmt(bb, si, stmt, state_before), on_term(bb, term, state_before_term) are called for
        every (partitioned) state reaching the program point; may be called several times."""
        body = self.body
        seen = defaultdict(dict)   # bb -> {frozen: state}
        merged = {}                # bb -> joined state when over MAX_PART
        work = [(0, dict(init or {}))]
        it = 0
        while work:
            it += 1
            if it > max_iter:
                raise RuntimeError("varflow: iteration bound exceeded in %s" % body.name)
            bb, st = work.pop()
            fz = self.freeze(st)
            if bb in merged:
                j = self.join(merged[bb], st)
                if self.freeze(j) == self.freeze(merged[bb]):
                    continue
                merged[bb] = j
                st = dict(j)
            else:
                if fz in seen[bb]:
                    continue
                seen[bb][fz] = st
                if len(seen[bb]) > MAX_PART:
                    j = None
                    for s2 in seen[bb].values():
                        j = dict(s2) if j is None else self.join(j, s2)
                    merged[bb] = j
                    st = dict(j)
            self.in_states[bb].append(dict(st))
            cur = dict(st)
            for si, s in enumerate(body.stmts(bb)):
                if on_stmt:
                    on_stmt(bb, si, s, cur)
                self.transfer_stmt(cur, s)
            t = body.term(bb)
            if on_term:
                on_term(bb, t, cur)
            for succ, ns in self.edges(bb, cur):
                self.transfer_term_common(ns, t)
                work.append((succ, ns))
        return self
