"""C32 — grok rules: the cycle-rejection clause (recursion guard of alias resolution) and exactness of the numeric filters' float->integer collapse."""
from facts import op_local, flow_sources
import cfgq

PARSE_ALIAS = "datadog::grok::parse_grok_rules::parse_alias"


def scc_of(facts, start):
    """strongly connected component of `start` in the local call graph (iterative Tarjan on the reachable subgraph)"""
    seen, ext, par = facts.reach([start], include_closures=True)
    nodes = sorted(seen)
    succ = {n: [c for c in (list(facts.callees(n)) + facts.closures_of(n)) if c in seen] for n in nodes}
    # nodes that can reach start
    rev = {n: [] for n in nodes}
    for n, cs in succ.items():
        for c in cs:
            rev[c].append(n)
    back = set()
    work = [start]
    while work:
        x = work.pop()
        if x in back:
            continue
        back.add(x)
        work.extend(rev[x])
    return {n for n in nodes if n in back}, succ


def has_cycle(nodes, succ):
    color = {}
    for s in nodes:
        if s in color:
            continue
        stack = [(s, iter(succ.get(s, [])))]
        color[s] = 1
        while stack:
            n, it = stack[-1]
            adv = False
            for c in it:
                if c not in nodes:
                    continue
                if color.get(c) == 1:
                    return True, (n, c)
                if c not in color:
                    color[c] = 1
                    stack.append((c, iter(succ.get(c, []))))
                    adv = True
                    break
            if not adv:
                color[n] = 2
                stack.pop()
    return False, None


def run(chk):
    facts = chk.facts
    chk.explanation = (
        "Decides only the clause 'cyclic alias definitions are rejected when the rule is compiled': R32a in parse_alias the recursive descent "
        "(parse_grok_rule) is dominated by a membership test on context.alias_stack whose positive edge returns Err(CircularDependencyInAliasDefinition) "
        "without recursing and whose negative edge pushes the alias name first; R32b every cycle of the local call graph through the grok rule parser "
        "passes through parse_alias (the SCC without parse_alias is acyclic), so no recursion bypasses the guard. R32c (filters clause, numeric "
        "filters only): every float->integer cast in datadog::grok::grok_filter whose result is kept is dominated by an exactness guard (the "
        "`(x as i64) as f64 == x` round-trip test, or two ordering comparisons bounding x) - an unguarded `as i64` saturates, so `%{number}` on "
        "`1e30` would capture i64::MAX instead of the matched number. Undecided: regex construction, capture reconstruction, the other filters "
        "(run-time regex behaviour).")
    rid = "R32a"
    chk.rule(rid, "parse_alias: membership test on alias_stack guards the recursion; hit => Err, miss => push then recurse", floor=3)
    b = chk.anchor(PARSE_ALIAS, rid)
    if b is None:
        return
    scc, succ = scc_of(facts, PARSE_ALIAS)
    rec_calls = [(bb, t) for bb, t in b.calls() if b.callee(t) in scc and b.callee(t) != PARSE_ALIAS or b.callee(t) == PARSE_ALIAS]
    tests = []
    for bb, t in b.calls():
        cal = b.callee(t)
        if cal.endswith("Iterator>::any") or cal.endswith("::any") or cal.endswith("::contains"):
            r = None

            def derives_from_stack(l, depth=0):
                if l is None or depth > 5:
                    return False
                for x in cfgq.ref_chain(b, l):
                    rr = cfgq.ref_root(b, x)
                    if rr and "alias_stack" in rr[1]:
                        return True
                    for kind, dbb, dsi, dx in b.defs().get(x, []):
                        if kind == "call" and any(derives_from_stack(op_local(a2), depth + 1) for a2 in dx["args"] if op_local(a2) is not None):
                            return True
                return False
            if any(derives_from_stack(op_local(a)) for a in t["args"] if op_local(a) is not None):
                r = True
            if r:
                tests.append((bb, t))
    d = {"fn": PARSE_ALIAS, "membership_tests": len(tests), "recursive_calls": [b.callee(t) for bb, t in rec_calls]}
    if not tests or not rec_calls:
        chk.instance(rid, d, ok=False)
        chk.violation(rid, b.file, PARSE_ALIAS, "cycle guard missing",
                      "parse_alias no longer tests context.alias_stack before descending: a cyclic alias definition recurses until the stack overflows", detail=d)
        return
    tbb, tt = tests[0]
    edges = cfgq.bool_switch_after_call(b, tbb)
    rbb = rec_calls[0][0]
    ok1 = b.dominates(tbb, rbb) and edges is not None
    chk.instance(rid, {**d, "test_dominates_recursion": ok1}, ok=ok1)
    if not ok1:
        chk.violation(rid, b.file, PARSE_ALIAS, "recursion not dominated by the membership test", "the recursive descent can be reached without the alias_stack test", detail=d)
        return
    hit, miss = edges
    err_blocks = [bi for bi, si, s in b.iter_stmts() if s["rv"]["k"] == "agg" and s["rv"].get("variant") == "CircularDependencyInAliasDefinition"]
    ok2 = not cfgq.reaches(b, [hit], [rbb], avoid=[miss]) and cfgq.reaches(b, [hit], err_blocks, avoid=[miss])
    d2 = {"fn": PARSE_ALIAS, "hit_edge_cannot_recurse_and_builds_Err": ok2}
    chk.instance(rid, d2, ok=ok2)
    if not ok2:
        chk.violation(rid, b.file, PARSE_ALIAS, "positive membership edge recurses", "an alias already on the stack is descended into again instead of being rejected", detail=d2)
    pushes = [bb for bb, t in b.calls() if b.callee(t).endswith("Vec::<T, A>::push") or b.callee(t).endswith("::push")]
    pushes = [pb for pb in pushes if any("alias_stack" in (cfgq.ref_root(b, op_local(a)) or (0, []))[1] for a in b.term(pb)["args"] if op_local(a) is not None)]
    ok3 = bool(pushes) and not cfgq.reaches(b, [miss], [rbb], avoid=pushes)
    d3 = {"fn": PARSE_ALIAS, "push_before_recursion_on_miss_edge": ok3}
    chk.instance(rid, d3, ok=ok3)
    if not ok3:
        chk.violation(rid, b.file, PARSE_ALIAS, "alias not pushed before recursing", "the alias name is not recorded on alias_stack before descending, so the cycle test never fires", detail=d3)

    rid = "R32b"
    chk.rule(rid, "every call-graph cycle of the grok rule parser passes through parse_alias", floor=1)
    rest = scc - {PARSE_ALIAS}
    cyc, edge = has_cycle(rest, succ)
    d = {"scc_size": len(scc), "members": sorted(scc)[:12], "cycle_without_parse_alias": list(edge) if edge else None}
    chk.instance(rid, d, ok=not cyc and len(scc) > 1)
    if cyc:
        chk.violation(rid, b.file, edge[0], "recursion bypassing parse_alias",
                      "the grok rule parser has a recursive cycle (%s -> %s) that does not pass the alias_stack guard" % edge, detail=d)
    elif len(scc) <= 1:
        chk.fail_closed(rid, "parse_alias is no longer part of a recursive cycle: re-derive the rule")

    rule_r32c(chk)
    rule_r32d(chk)


FILTER_MOD = "datadog::grok::grok_filter::"


def rule_r32c(chk):
    from facts import uses_of
    facts = chk.facts
    rid = "R32c"
    chk.rule(rid, "float->integer collapse in grok filters is guarded by an exactness test", floor=1)
    names = facts.names(lambda n: n.startswith(FILTER_MOD))
    if not names:
        chk.fail_closed(rid, "no bodies under %s" % FILTER_MOD)
        return
    for n in sorted(names):
        b = facts.body(n)
        defs = b.defs()

        def single_def(l):
            ds = defs.get(l, [])
            return ds[0] if len(ds) == 1 and ds[0][0] == "stmt" else None

        def is_roundtrip(op):
            """operand defined by IntToFloat(FloatToInt(_)), through plain moves"""
            l = op_local(op)
            for _ in range(6):
                if l is None:
                    return False
                d = single_def(l)
                if d is None:
                    return False
                rv = d[3]["rv"]
                if rv["k"] == "use":
                    l = op_local(rv["op"])
                    continue
                if rv["k"] == "cast" and rv["ck"] == "IntToFloat":
                    d2 = single_def(op_local(rv["op"]))
                    return d2 is not None and d2[3]["rv"]["k"] == "cast" and d2[3]["rv"]["ck"] == "FloatToInt"
                return False
            return False

        # guard blocks: switch on a bool computed by an f64 comparison
        eq_guards, ord_guards = [], []
        for bi, t in b.iter_terms("switch"):
            l = op_local(t["op"])
            d = single_def(l) if l is not None else None
            if d is None:
                continue
            rv = d[3]["rv"]
            if rv["k"] == "binop" and rv.get("tya") == "f64":
                if rv["op"] == "Eq" and (is_roundtrip(rv["a"]) or is_roundtrip(rv["b"])):
                    eq_guards.append(bi)
                elif rv["op"] in ("Lt", "Le", "Gt", "Ge"):
                    ord_guards.append(bi)
        for bi, si, st in b.iter_stmts():
            rv = st["rv"]
            if not (rv["k"] == "cast" and rv["ck"] == "FloatToInt" and rv.get("from") in ("f64", "f32")):
                continue
            dest = st["d"]["l"]
            us = uses_of(b, dest)
            if us and all(u[0] == "stmt" and u[3]["rv"]["k"] == "cast" and u[3]["rv"]["ck"] == "IntToFloat" for u in us):
                continue  # the round-trip probe itself
            # only the collapse of an existing Value::Float (operand read out of the NotNan payload) is armed; a cast of a freshly parsed f64
            # (integerExt: `parse::<f64>().map(|f| f as i64)`) is the filter's declared truncating conversion, not a collapse
            src, from_value = op_local(rv["op"]), False
            for _ in range(6):
                ds = defs.get(src, []) if src is not None else []
                if len(ds) != 1:
                    break
                if ds[0][0] == "call":
                    cal = (ds[0][3].get("rfn_full") or "") + " " + (b.callee(ds[0][3]) or "")
                    from_value = "NotNan" in cal and "into_inner" in cal
                    break
                r2 = ds[0][3]["rv"]
                if r2["k"] != "use":
                    break
                src = op_local(r2["op"])
            if not from_value:
                chk.extra.setdefault("r32c_truncating_casts_unarmed", []).append({"function": n, "line": st.get("ln")})
                continue
            g_eq = [g for g in eq_guards if g != bi and b.dominates(g, bi)]
            g_ord = [g for g in ord_guards if g != bi and b.dominates(g, bi)]
            ok = bool(g_eq) or len(g_ord) >= 2
            d = {"function": n, "line": st.get("ln"), "to": rv.get("to"), "roundtrip_guards": len(g_eq), "ordering_guards": len(g_ord)}
            chk.instance(rid, d, ok=ok)
            if not ok:
                chk.violation(rid, b.file, n, "unguarded float->%s cast" % rv.get("to"),
                              "%s:%s casts a float to %s and keeps the result without a dominating exactness test (`(x as i64) as f64 == x` or a range check): "
                              "`as` saturates, so a numeric grok filter applied to e.g. `1e30` yields i64::MAX instead of the matched number"
                              % (b.file, st.get("ln"), rv.get("to")), detail=d)


PARSE_RULES = "datadog::grok::parse_grok_rules::parse_grok_rules"
import re as _re
STR_REWRITE = _re.compile(r"^(core|std|alloc)::str::<impl str>::(trim\w*|strip_\w+|replace\w*|to_\w*case|to_ascii_\w+|split\w*|rsplit\w*|get\w*|lines|repeat)$"
                          r"|^std::string::String::(truncate|pop|remove|retain|drain|replace_range|insert\w*|push\w*)$")


def rule_r32d(chk):
    """the rule text reaches parse_pattern as written: the entry point does not rewrite it (trim, case folding, slicing, replacement)"""
    facts = chk.facts
    rid = "R32d"
    chk.rule(rid, "parse_grok_rules hands each rule text to parse_pattern without rewriting it", floor=1)
    if not facts.has(PARSE_RULES):
        chk.fail_closed(rid, "anchor not found: %s" % PARSE_RULES)
        return
    fam = facts.family(PARSE_RULES)
    # positive control for the callee pattern: the same pattern must match somewhere in the grok module (it does: key/value trimming in parse_grok.rs)
    ctrl = 0
    for n in facts.names(lambda n: n.startswith("datadog::grok::") and not n.startswith(PARSE_RULES)):
        b = facts.body(n)
        ctrl += sum(1 for _bb, t in b.calls() if STR_REWRITE.match(b.callee(t) or ""))
    chk.extra["r32d_pattern_control_matches_elsewhere_in_grok"] = ctrl
    if ctrl == 0:
        chk.fail_closed(rid, "the string-rewrite callee pattern matches nothing in datadog::grok (expected the key/value trimming of parse_grok.rs): callee naming changed, re-anchor")
        return
    sinks = 0
    for n in sorted(fam):
        b = facts.body(n)
        for bb, t in b.calls():
            cal = b.callee(t) or ""
            if cal.endswith("parse_grok_rules::parse_pattern"):
                sinks += 1
                chk.instance(rid, {"function": n, "sink": cal, "site": b.loc(t)}, ok=True)
            if STR_REWRITE.match(cal):
                d = {"function": n, "rewrite": cal, "site": b.loc(t)}
                chk.instance(rid, d, ok=False)
                chk.violation(rid, b.file, n, "rule text rewritten by %s" % cal.rsplit("::", 1)[1],
                              "%s calls %s on the way from the caller's rule list to parse_pattern: the compiled regex is no longer the anchored form of the rule as "
                              "written, so a literal-only rule with e.g. edge whitespace (`\"foo \"`) stops matching exactly its own text" % (b.loc(t), cal), detail=d)
    if sinks == 0:
        chk.fail_closed(rid, "parse_grok_rules no longer calls parse_pattern from its own body or closures: the rule text takes another route; re-anchor R32d")
