"""F-MAP: model of every stdlib `impl Function` (identifier, purity, closure support, the expression
types its `compile` boxes, their resolve / type_def bodies) and P-EFFECT (effect atoms reachable from
a body through resolved static call edges, stopping at child-expression evaluation)."""
import re
from facts import op_local, op_place, const_value

FUNCTION = "compiler::function::Function"
FEXPR = "compiler::expression::function::FunctionExpression"
EXPR = "compiler::expression::Expression"

RESOLVE_STOP = re.compile(
    r"^(dyn |\? )?(compiler::expression::Expression::resolve|compiler::expression::function::FunctionExpression::resolve)$"
    r"|^<.* as compiler::expression::(function::Function)?Expression>::resolve$")


def is_child_eval(callee):
    return bool(RESOLVE_STOP.match(callee))


# effect atoms: (atom, regex over callee path)
ATOMS = [
    ("TARGET_WRITE", re.compile(r"^dyn compiler::target::Target::(target_insert|target_remove|target_get_mut)$")),
    ("TARGET_READ", re.compile(r"^dyn compiler::target::Target::target_get$")),
    ("SECRET_WRITE", re.compile(r"compiler::target::SecretTarget::(insert_secret|remove_secret)$")),
    ("SECRET_READ", re.compile(r"compiler::target::SecretTarget::get_secret$")),
    ("VAR_WRITE", re.compile(r"^compiler::state::RuntimeState::(insert_variable|remove_variable|swap_variable|variable_mut|clear)$")),
    ("TZ_READ", re.compile(r"^compiler::context::Context::<'a>::timezone$")),
    ("CLOCK", re.compile(r"(chrono::(offset::)?(Utc|Local)::now$|chrono::offset::(utc|local)::(Utc|Local)::now$|std::time::(SystemTime|Instant)::now$|::Utc::now$|::Local::now$)")),
    ("RNG", re.compile(r"^(rand::|rand_core::|getrandom::|uuid::.*::(new_v4|now_v7|new_v7)$|uuid::Uuid::(new_v4|now_v7|new_v7))")),
    ("ENV", re.compile(r"^std::env::(var|var_os|vars|vars_os|set_var|remove_var|current_dir|args)$")),
    ("HOST", re.compile(r"^(hostname::get|iana_time_zone::get_timezone)$")),
    ("NET", re.compile(r"^(reqwest|reqwest_middleware|reqwest_retry|dns_lookup|domain::resolv|tokio::net|std::net::(TcpStream|UdpSocket|ToSocketAddrs)|hyper)(::|$)")),
    ("FS", re.compile(r"^std::fs::|^std::fs$|^std::io::stdin|std::fs::File::")),
    ("LOG", re.compile(r"^tracing(_core)?::|^log::")),
    ("LOCAL_TZ", re.compile(r"chrono::(offset::)?(local::)?Local(::|$)|iana_time_zone::")),
]


def atoms_of(callee):
    out = []
    c = callee
    for name, rx in ATOMS:
        if rx.search(c):
            out.append(name)
    return out


class FMap:
    def __init__(self, facts):
        self.facts = facts
        self.functions = {}   # self type -> dict
        for imp in facts.impls_of(FUNCTION):
            S = imp["self"]
            items = {it["name"]: it["path"] for it in imp["items"]}
            f = {"self": S, "file": imp["file"], "line": imp["line"], "items": items}
            f["identifier"] = self._const_ret(items.get("identifier"), "str")
            f["pure_overridden"] = "pure" in items
            f["pure"] = self._const_ret(items.get("pure"), "bool") if "pure" in items else True
            f["closure_overridden"] = "closure" in items
            f["compile"] = items.get("compile")
            f["exprs"] = self._expr_types(items.get("compile")) if items.get("compile") else []
            self.functions[S] = f
        self.by_ident = {f["identifier"]: f for f in self.functions.values() if f["identifier"]}

    def _const_ret(self, name, kind):
        if not name or not self.facts.has(name):
            return None
        b = self.facts.body(name)
        for bi, si, s in b.iter_stmts():
            if s["d"]["l"] == 0 and s["rv"]["k"] == "use" and s["rv"]["op"].get("k") == "const" and kind in s["rv"]["op"]:
                return s["rv"]["op"][kind]
        return None

    def _expr_types(self, compile_name):
        """expression types boxed as dyn Expression by compile (and the local helpers it calls)"""
        facts = self.facts
        out = []
        seen, ext, par = facts.reach([compile_name], stop=lambda c: is_child_eval(c))
        for n in seen:
            b = facts.body(n)
            for bb, t in b.calls():
                fn = t.get("fn") or ""
                if fn == FEXPR + "::as_expr":
                    m = re.match(r"^<(.*) as compiler::expression::function::FunctionExpression>::as_expr$", t.get("fn_full", ""))
                    if m and m.group(1) not in out:
                        out.append(m.group(1))
            for bi, si, s in b.iter_stmts():
                rv = s["rv"]
                if rv["k"] == "cast" and "dyn compiler::expression::Expression" in rv["to"] and "dyn compiler::expression::Expression" not in rv["from"]:
                    m = re.match(r"^std::boxed::Box<(.*)>$", rv["from"])
                    if m:
                        ty = m.group(1)
                        if not ty.startswith("compiler::expression::") and ty not in out:
                            out.append(ty)
        return out

    def resolve_body(self, expr_ty):
        for tr in (FEXPR, EXPR):
            n = "<%s as %s>::resolve" % (expr_ty, tr)
            if self.facts.has(n):
                return n
        return None

    def method_body(self, expr_ty, method):
        for tr in (FEXPR, EXPR):
            n = "<%s as %s>::%s" % (expr_ty, tr, method)
            if self.facts.has(n):
                return n
        return None


def effects(facts, roots, extra_stop=None):
    """P-EFFECT: {atom: [(callee, path-of-local-bodies)]} reachable from roots without traversing
    child-expression evaluation."""
    def stop(c):
        if is_child_eval(c):
            return True
        if extra_stop and extra_stop(c):
            return True
        return False
    seen, ext, parent = facts.reach(roots, stop=stop)
    out = {}
    for callee, frm in ext.items():
        for a in atoms_of(callee):
            out.setdefault(a, []).append((callee, facts.path_to(parent, frm)))
    # local callees can be atoms too (VAR_WRITE, TZ_READ are local functions)
    for n in seen:
        for a in atoms_of(n):
            out.setdefault(a, []).append((n, facts.path_to(parent, n)))
    return out, seen, ext
