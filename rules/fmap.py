"""F-MAP: model of every stdlib `impl Function` (identifier, purity, closure support, the expression
types its `compile` boxes, their resolve / type_def bodies) and P-EFFECT (effect atoms reachable from
a body through resolved static call edges, stopping at child-expression evaluation)."""
import re
from facts import op_local, op_place, const_value

FUNCTION = "compiler::function::Function"
FEXPR = "compiler::expression::function::FunctionExpression"
EXPR = "compiler::expression::Expression"

RESOLVE_STOP = re.compile(
    r"^(dyn |\? )?(compiler::expression::Expression::resolve|compiler::expression::function::FunctionExpression::resolve)$"
    r"|^<.* as compiler::expression::(function::Function)?Expression>::resolve$")


def is_child_eval(callee):
    return bool(RESOLVE_STOP.match(callee))


# effect atoms: (atom, regex over callee path)
ATOMS = [
    ("TARGET_WRITE", re.compile(r"^dyn compiler::target::Target::(target_insert|target_remove|target_get_mut)$")),
    ("TARGET_READ", re.compile(r"^dyn compiler::target::Target::target_get$")),
    ("SECRET_WRITE", re.compile(r"compiler::target::SecretTarget::(insert_secret|remove_secret)$")),
    ("SECRET_READ", re.compile(r"compiler::target::SecretTarget::get_secret$")),
    ("VAR_WRITE", re.compile(r"^compiler::state::RuntimeState::(insert_variable|remove_variable|swap_variable|variable_mut|clear)$")),
    ("TZ_READ", re.compile(r"^compiler::context::Context::<'a>::timezone$")),
    ("CLOCK", re.compile(r"(chrono::(offset::)?(Utc|Local)::now$|chrono::offset::(utc|local)::(Utc|Local)::now$|std::time::(SystemTime|Instant)::now$|::Utc::now$|::Local::now$)")),
    ("RNG", re.compile(r"^(rand::|rand_core::|getrandom::|uuid::.*::(new_v4|now_v7|new_v7)$|uuid::Uuid::(new_v4|now_v7|new_v7))")),
    ("ENV", re.compile(r"^std::env::(var|var_os|vars|vars_os|set_var|remove_var|current_dir|args)$")),
    ("HOST", re.compile(r"^(hostname::get|iana_time_zone::get_timezone)$")),
    ("NET", re.compile(r"^(reqwest|reqwest_middleware|reqwest_retry|dns_lookup|domain::resolv|tokio::net|std::net::(TcpStream|UdpSocket|ToSocketAddrs)|hyper)(::|$)")),
    ("FS", re.compile(r"^std::fs::|^std::fs$|^std::io::stdin|std::fs::File::")),
    ("LOG", re.compile(r"^tracing(_core)?::|^log::")),
    ("LOCAL_TZ", re.compile(r"chrono::(offset::)?(local::)?Local(::|$)|iana_time_zone::")),
]


def atoms_of(callee):
    out = []
    c = callee
    for name, rx in ATOMS:
        if rx.search(c):
            out.append(name)
    return out


class FMap:
    def __init__(self, facts):
        self.facts = facts
        self.functions = {}   # self type -> dict
        for imp in facts.impls_of(FUNCTION):
            S = imp["self"]
            items = {it["name"]: it["path"] for it in imp["items"]}
            f = {"self": S, "file": imp["file"], "line": imp["line"], "items": items}
            f["identifier"] = self._const_ret(items.get("identifier"), "str")
            f["pure_overridden"] = "pure" in items
            f["pure"] = self._const_ret(items.get("pure"), "bool") if "pure" in items else True
            f["closure_overridden"] = "closure" in items
            f["compile"] = items.get("compile")
            f["exprs"] = self._expr_types(items.get("compile")) if items.get("compile") else []
            self.functions[S] = f
        self.by_ident = {f["identifier"]: f for f in self.functions.values() if f["identifier"]}

    def _const_ret(self, name, kind):
        if not name or not self.facts.has(name):
            return None
        b = self.facts.body(name)
        for bi, si, s in b.iter_stmts():
            if s["d"]["l"] == 0 and s["rv"]["k"] == "use" and s["rv"]["op"].get("k") == "const" and kind in s["rv"]["op"]:
                return s["rv"]["op"][kind]
        return None

    def _expr_types(self, compile_name):
        """expression types boxed as dyn Expression by compile (and the local helpers it calls)"""
        facts = self.facts
        out = []
        seen, ext, par = facts.reach([compile_name], stop=lambda c: is_child_eval(c))
        for n in seen:
            b = facts.body(n)
            for bb, t in b.calls():
                fn = t.get("fn") or ""
                if fn == FEXPR + "::as_expr":
                    m = re.match(r"^<(.*) as compiler::expression::function::FunctionExpression>::as_expr$", t.get("fn_full", ""))
                    if m and m.group(1) not in out:
                        out.append(m.group(1))
            for bi, si, s in b.iter_stmts():
                rv = s["rv"]
                if rv["k"] == "cast" and "dyn compiler::expression::Expression" in rv["to"] and "dyn compiler::expression::Expression" not in rv["from"]:
                    m = re.match(r"^std::boxed::Box<(.*)>$", rv["from"])
                    if m:
                        ty = m.group(1)
                        if not ty.startswith("compiler::expression::") and ty not in out:
                            out.append(ty)
        return out

    def resolve_body(self, expr_ty):
        for tr in (FEXPR, EXPR):
            n = "<%s as %s>::resolve" % (expr_ty, tr)
            if self.facts.has(n):
                return n
        return None

    def method_body(self, expr_ty, method):
        for tr in (FEXPR, EXPR):
            n = "<%s as %s>::%s" % (expr_ty, tr, method)
            if self.facts.has(n):
                return n
        return None


def effects(facts, roots, extra_stop=None):
    """P-EFFECT: {atom: [(callee, path-of-local-bodies)]} reachable from roots without traversing
    child-expression evaluation."""
    def stop(c):
        if is_child_eval(c):
            return True
        if extra_stop and extra_stop(c):
            return True
        return False
    seen, ext, parent = facts.reach(roots, stop=stop)
    out = {}
    for callee, frm in ext.items():
        for a in atoms_of(callee):
            out.setdefault(a, []).append((callee, facts.path_to(parent, frm)))
    # local callees can be atoms too (VAR_WRITE, TZ_READ are local functions)
    for n in seen:
        for a in atoms_of(n):
            out.setdefault(a, []).append((n, facts.path_to(parent, n)))
    return out, seen, ext


# ---------------------------------------------------------------------------------------------
# P-CONST: PARAMETERS tables

KIND_BITS = {"BYTES": 1 << 1, "INTEGER": 1 << 2, "FLOAT": 1 << 3, "BOOLEAN": 1 << 4, "OBJECT": 1 << 5, "ARRAY": 1 << 6,
             "TIMESTAMP": 1 << 7, "REGEX": 1 << 8, "NULL": 1 << 9, "UNDEFINED": 1 << 10}


def const_int(b, op, depth=0):
    """evaluate a small constant integer expression (consts combined with BitOr/BitAnd/Add/Shl) inside a const body"""
    if not op:
        return None
    if op.get("k") == "const":
        v = op.get("int")
        try:
            return int(v) if v is not None else None
        except (TypeError, ValueError):
            return None
    l = op_local(op)
    if l is None or depth > 8:
        return None
    ds = b.defs().get(l, [])
    if len(ds) != 1 or ds[0][0] != "stmt":
        return None
    rv = ds[0][3]["rv"]
    if rv["k"] in ("use", "cast"):
        return const_int(b, rv["op"], depth + 1)
    if rv["k"] == "binop":
        x, y = const_int(b, rv["a"], depth + 1), const_int(b, rv["b"], depth + 1)
        if x is None or y is None:
            return None
        return {"BitOr": x | y, "BitAnd": x & y, "Add": x + y, "Shl": x << y if y < 64 else None, "BitXor": x ^ y, "Sub": x - y}.get(rv["op"])
    if rv["k"] == "unop" and rv["op"] == "Not":
        x = const_int(b, rv["a"], depth + 1)
        return (~x) & 0xFFFF if x is not None else None
    return None


def _scan_param_calls(facts, body_names):
    out = []
    body_names = list(body_names)
    seen_bodies = set()
    while body_names:
        bn = body_names.pop(0)
        if bn in seen_bodies or not facts.has(bn):
            continue
        seen_bodies.add(bn)
        b = facts.body(bn)
        # statics/consts referenced from the table (shared Parameter definitions)
        raw = b.d
        for bi, si, st in b.iter_stmts():
            for op in [st["rv"].get("op"), st["rv"].get("a"), st["rv"].get("b")] + list(st["rv"].get("ops", [])):
                if isinstance(op, dict) and op.get("k") == "const":
                    for key in ("static", "item"):
                        if op.get(key) and op[key] not in seen_bodies:
                            nm = op[key] if "promoted" not in op or key == "static" else "%s::{promoted#%d}" % (op[key], op["promoted"])
                            body_names.append(nm)
                            body_names.extend(facts.promoteds_of(nm))
        chain = {}   # local -> param dict (follows .default()/.enum_variants() builder calls)
        for bi, si, st in b.iter_stmts():
            rv = st["rv"]
            if rv["k"] == "agg" and rv.get("adt") == "compiler::function::Parameter":
                fl = dict(zip(rv.get("fnames", []), rv["ops"]))
                p = {"keyword": fl.get("keyword", {}).get("str"), "kind": const_int(b, fl.get("kind", {})),
                     "required": fl.get("required", {}).get("bool"), "default": None, "enum": None, "line": st.get("ln"), "file": b.file}
                out.append(p)
        for bb, t in b.calls():
            cal = b.callee(t)
            if cal in ("compiler::function::Parameter::required", "compiler::function::Parameter::optional"):
                kw = t["args"][0].get("str")
                kind = const_int(b, t["args"][1])
                p = {"keyword": kw, "kind": kind, "required": cal.endswith("required"),
                     "default": False, "enum": False, "line": t["ln"], "file": b.file}
                chain[t["dest"]["l"]] = p
                out.append(p)
            elif cal in ("compiler::function::Parameter::default", "compiler::function::Parameter::enum_variants"):
                src = op_local(t["args"][0])
                p = chain.get(src)
                if p is not None:
                    p["default" if cal.endswith("default") else "enum"] = True
                    chain[t["dest"]["l"]] = p
    return out


def parameters_of(facts, f):
    """list of declared parameters of an `impl Function` (from the const/promoted body parameters() returns)"""
    name = f["items"].get("parameters")
    if not name:
        return []          # trait default: no parameters
    if not facts.has(name):
        return None
    b = facts.body(name)
    srcs = [name] + facts.promoteds_of(name)
    for bi, si, s in b.iter_stmts():
        rv = s["rv"]
        ops = []
        if rv["k"] in ("use", "cast"):
            ops = [rv["op"]]
        for op in ops:
            if op.get("k") == "const" and op.get("item"):
                it = op["item"]
                if "promoted" in op:
                    srcs.append("%s::{promoted#%d}" % (it, op["promoted"]))
                else:
                    srcs.append(it)
                    srcs += facts.promoteds_of(it)
    return _scan_param_calls(facts, srcs)
