"""C20 — path text round-trip and parser agreement (alphabet agreement only, P-CHARSET)."""
from facts import op_local, op_place
from varflow import VarFlow, MOVED
import cfgq

SERIALIZE_FIELD = "path::owned::serialize_field"
JIT_NEXT = "<path::jit::JitValuePathIter<'a> as std::iter::Iterator>::next"
JIT_STATE = "path::jit::JitState"
LEX_START = "parser::lex::is_ident_start"
LEX_CONT = "parser::lex::is_ident_continue"
FIELD_STATES = ("Start", "Continue", "EventRoot", "Dot", "Field")
CHAR_MAX = 0x10FFFF


def clip(ivs):
    out = []
    for a, b in sorted(ivs):
        a, b = max(a, 0), min(b, CHAR_MAX)
        if a <= b:
            out.append((a, b))
    return merge(out)


def merge(ivs):
    out = []
    for a, b in sorted(ivs):
        if out and a <= out[-1][1] + 1:
            out[-1] = (out[-1][0], max(out[-1][1], b))
        else:
            out.append((a, b))
    return out


def intersect(x, y):
    out = []
    for a, b in x:
        for c, d in y:
            lo, hi = max(a, c), min(b, d)
            if lo <= hi:
                out.append((lo, hi))
    return merge(out)


def show(ivs):
    def ch(c):
        return chr(c) if 32 < c < 127 else "U+%04X" % c
    return ["%s" % ch(a) if a == b else "%s-%s" % (ch(a), ch(b)) for a, b in ivs][:12]


def true_set(facts, name):
    """code points for which a `fn(char) -> bool` / matches!-closure yields true: intervals of the char parameter at the points
    where a bool local that reaches the return value is assigned `true` (or the return place itself)"""
    b = facts.body(name)
    cl = [i for i in range(1, b.argc + 1) if b.local_ty(i) == "char"]
    if not cl:
        return None
    c = cl[0]
    vf = VarFlow(facts, b, extra_locals=[c])
    acc = []

    def on_stmt(bb, si, s, st):
        rv = s["rv"]
        if rv["k"] == "use" and rv["op"].get("bool") is True and not s["d"].get("p"):
            iv = st.get("_%d#iv" % c)
            acc.extend(iv if iv is not None else [(0, CHAR_MAX)])

    def on_term(bb, t, st):
        # delegation: `ch => other_predicate(ch)` returning directly
        if t["k"] == "call" and t["dest"]["l"] == 0 and t.get("rlocal"):
            sub = true_set(facts, b.callee(t))
            if sub:
                iv = st.get("_%d#iv" % c)
                cur = clip(iv) if iv is not None else [(0, CHAR_MAX)]
                acc.extend(intersect(cur, sub))
    vf.run(on_stmt=on_stmt, on_term=on_term)
    return clip(acc)


def run(chk):
    facts = chk.facts
    chk.explanation = (
        "Decides alphabet agreement between the path serializer and the parsers (P-CHARSET = P-VAR with an interval domain over one char), not the state "
        "machines' transitions. R20a: the characters serialize_field emits without quotes are a subset of the characters JitValuePathIter::next accepts in "
        "every state that can start or continue an unquoted field (no BorrowedSegment::Invalid for them in Start/Continue/EventRoot/Dot/Field). R20b: the "
        "characters serialize_field escapes inside quotes are exactly '\"' and '\\\\', which are the escapes the parser's EscapedQuote state decodes. R20c: the "
        "VRL lexer's identifier alphabet (is_ident_start/continue) is a subset of the JIT parser's field alphabet, so a field written unquoted in VRL source "
        "is also a valid unquoted field for parse_value_path. Undecided: transitions, index parsing, the LALRPOP path rules, prefix handling.")
    rid = "R20a"
    chk.rule(rid, "unquoted serializer alphabet is accepted by the path parser in all 5 field states", floor=5)
    sname = SERIALIZE_FIELD + "::{closure#0}"
    if not facts.has(sname) or not facts.has(JIT_NEXT):
        chk.fail_closed(rid, "anchor not found: %s / %s" % (sname, JIT_NEXT))
        return
    # serializer: closure returns !matches!(c, set): chars assigned `true` to the matches-flag are the unquoted alphabet
    U = true_set(facts, sname)
    chk.extra["serializer_unquoted_alphabet"] = show(U or [])
    b = facts.body(JIT_NEXT)
    char_locals = [i for i, l in enumerate(b.locals) if l["ty"] == "char"]
    vf0 = VarFlow(facts, b, extra_locals=char_locals)
    state_keys = set()
    for sbb, place, adt, tg, other in cfgq.discr_switches_on(facts, b, lambda p, a: a == JIT_STATE):
        state_keys.add(vf0.key(place))
    invalid = {}
    vf = VarFlow(facts, b, extra_locals=char_locals)

    def on_stmt(bb, si, s, st):
        rv = s["rv"]
        if rv["k"] == "agg" and rv.get("variant") == "Invalid" and (rv.get("adt") or "").endswith("BorrowedSegment"):
            states = set()
            for k in state_keys:
                v = st.get(k)
                if v is not None:
                    states |= set(v) - {MOVED}
            if len(states) != 1:
                return     # end-of-input arm groups several states and involves no character
            # only arms that look at the character read in this iteration (dominated by its definition)
            if not any(any(k == "stmt" and b.dominates(dbb, bb) for k, dbb, dsi, dx in b.defs().get(cl, [])) for cl in char_locals):
                return
            S = next(iter(states))
            got = False
            for cl in char_locals:
                if not any(k == "stmt" and b.dominates(dbb, bb) for k, dbb, dsi, dx in b.defs().get(cl, [])):
                    continue
                iv = st.get("_%d#iv" % cl)
                if iv is not None:
                    invalid.setdefault(S, []).extend(iv)
                    got = True
            if not got:
                invalid.setdefault(S, [])
    vf.run(on_stmt=on_stmt)
    chk.extra["parser_rejects"] = {k: show(clip(v)) for k, v in invalid.items()}
    for S in FIELD_STATES:
        rej = clip(invalid.get(S, []))
        clash = intersect(U or [], rej)
        d = {"state": S, "rejected_chars": show(rej), "clash_with_unquoted_alphabet": show(clash)}
        ok = U is not None and bool(U) and not clash and S in invalid
        chk.instance(rid, d, ok=ok)
        if not ok:
            chk.violation(rid, b.file, JIT_NEXT, "state %s rejects an unquoted character" % S,
                          "serialize_field writes %s unquoted, but the path parser rejects it in state %s: a rendered path does not parse back"
                          % (show(clash) or "?", S), detail=d)

    rid = "R20b"
    chk.rule(rid, "escaped characters: serializer {'\"','\\\\'} == what the parser's escape state decodes", floor=2)
    sb = facts.body(SERIALIZE_FIELD)
    esc = set()
    scl = [i for i, l in enumerate(sb.locals) if l["ty"] == "char"]
    svf = VarFlow(facts, sb, extra_locals=scl)

    def on_term(bb, t, st):
        if t["k"] == "call" and sb.callee(t) == "std::string::String::push" and len(t["args"]) > 1 and str(t["args"][1].get("char", t["args"][1].get("int"))) == "92":
            for cl in scl:
                iv = st.get("_%d#iv" % cl)
                if iv is not None:
                    for a, bb2 in iv:
                        if bb2 - a < 8:
                            esc.update(range(a, bb2 + 1))
    svf.run(on_term=on_term)
    d = {"serializer_escapes": sorted(chr(x) for x in esc)}
    ok = esc == {34, 92}
    chk.instance(rid, d, ok=ok)
    if not ok:
        chk.violation(rid, sb.file, SERIALIZE_FIELD, "escape set is %s" % d["serializer_escapes"],
                      "serialize_field must escape exactly '\"' and '\\\\' inside quoted fields (found %s)" % d["serializer_escapes"], detail=d)
    # parser: a switch on a char with explicit values {34, 92} whose other edge builds Invalid
    dec = None
    for bi, t in b.iter_terms("switch"):
        if t.get("ty") == "char" and {v for v, _ in t["targets"]} == {"34", "92"}:
            inv_blocks = {x for x, si, s in b.iter_stmts() if s["rv"]["k"] == "agg" and s["rv"].get("variant") == "Invalid"}
            if cfgq.reaches(b, [t["otherwise"]], inv_blocks, avoid=[tg for _, tg in t["targets"]]):
                dec = bi
    d = {"parser_escape_switch_block": dec}
    chk.instance(rid, d, ok=dec is not None)
    if dec is None:
        chk.violation(rid, b.file, JIT_NEXT, "escape decoding", "the path parser no longer decodes exactly the escapes \\\" and \\\\ inside quoted fields", detail=d)

    rid = "R20c"
    chk.rule(rid, "VRL lexer identifier alphabet is a subset of the path parser's unquoted field alphabet", floor=2)
    # parser alphabet per state = complement of rejected within ASCII/unicode; compare lexer sets against rejected sets of Field (continue) and Dot (start)
    for lname, state in ((LEX_START, "Dot"), (LEX_CONT, "Field")):
        if not facts.has(lname):
            chk.fail_closed(rid, "anchor not found: %s" % lname)
            continue
        L = true_set(facts, lname)
        rej = clip(invalid.get(state, []))
        clash = intersect(L or [], rej)
        d = {"lexer_predicate": lname, "alphabet": show(L or []), "parser_state": state, "clash": show(clash)}
        ok = bool(L) and not clash
        chk.instance(rid, d, ok=ok)
        if not ok:
            chk.violation(rid, "src/parser/lex.rs", lname, "lexer accepts a character the path parser rejects",
                          "%s accepts %s which JitValuePathIter rejects in state %s: a path written in VRL source does not denote the location the "
                          "path-string parser assigns to the same text" % (lname, show(clash) or "?", state), detail=d)
