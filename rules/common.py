"""Check bookkeeping: rule instances, violations keyed without line numbers, known findings,
evidence writing and the VIOLATION / KNOWN-FINDING protocol."""
import hashlib
import json
import os
import re
import sys
import time

VERIF = os.path.dirname(os.path.dirname(os.path.abspath(__file__)))
KNOWN_FILE = os.path.join(VERIF, "known_findings.txt")
EVDIR = os.environ.get("VERIF_EVIDENCE_DIR") or os.path.join(VERIF, "evidence")


def rel(path, repo):
    if path and path.startswith(repo.rstrip("/") + "/"):
        return path[len(repo.rstrip("/")) + 1:]
    return path


class Violation:
    def __init__(self, rule, file, fn, construct, ordinal, msg, detail=None, loc=None):
        self.rule = rule
        self.file = file
        self.fn = fn
        self.construct = construct
        self.ordinal = ordinal
        self.msg = msg
        self.detail = detail or {}
        self.loc = loc

    @property
    def key(self):
        return "|".join([self.rule, self.file or "?", self.fn or "?", self.construct or "?", str(self.ordinal)])


def load_known(pid):
    """returns {key: text} for `known:` lines of this property; `fixed:` lines suppress nothing"""
    known = {}
    fixed = []
    if not os.path.exists(KNOWN_FILE):
        return known, fixed
    for line in open(KNOWN_FILE):
        line = line.rstrip("\n")
        if not line or line.startswith("#"):
            continue
        m = re.match(r"known: property=(\S+) key=(.*?) :: (.*)$", line)
        if m:
            if m.group(1) == pid:
                known[m.group(2)] = m.group(3)
            continue
        m = re.match(r"fixed: property=(\S+) (\S+) (.*)$", line)
        if m and m.group(1) == pid:
            fixed.append((m.group(2), m.group(3)))
    return known, fixed


class Check:
    def __init__(self, pid, facts, tier="quick", repo="/repo"):
        self.pid = pid
        self.facts = facts
        self.tier = tier
        self.repo = repo
        self.t0 = time.time()
        self.rules = {}
        self.violations = []
        self.failclosed = []
        self.notes = []
        self.assumptions = []
        self.explanation = ""
        self.extra = {}

    # -- rules -----------------------------------------------------------------------------
    def rule(self, rid, text, floor=None):
        r = self.rules.setdefault(rid, {"text": text, "instances": [], "discharged": 0,
                                        "violations": 0, "unresolved": [], "floor": floor, "notes": []})
        if floor is not None:
            r["floor"] = floor
        return r

    def instance(self, rid, desc, ok=True):
        """record one examined site. ok=True discharged, False violated (call violation() too),
        None unresolved."""
        r = self.rules[rid]
        r["instances"].append(desc)
        if ok is True:
            r["discharged"] += 1
        elif ok is None:
            r["unresolved"].append(desc)

    def note(self, rid, text):
        if rid in self.rules:
            self.rules[rid]["notes"].append(text)
        else:
            self.notes.append("%s: %s" % (rid, text))

    def violation(self, rule, file, fn, construct, msg, ordinal=0, detail=None, loc=None):
        file = rel(file, self.repo)
        v = Violation(rule, file, fn, construct, ordinal, msg, detail, loc)
        # ordinal disambiguation for identical keys
        keys = {x.key for x in self.violations}
        while v.key in keys:
            v.ordinal += 1
        self.violations.append(v)
        if rule in self.rules:
            self.rules[rule]["violations"] += 1
        return v

    def fail_closed(self, rule, what):
        self.failclosed.append((rule, what))

    def anchor(self, name, rule="anchor"):
        if not self.facts.has(name):
            self.fail_closed(rule, "anchor not found: %s" % name)
            return None
        return self.facts.body(name)

    # -- finish ----------------------------------------------------------------------------
    def finish(self):
        pid = self.pid
        for rid, r in self.rules.items():
            if r["floor"] is not None and len(r["instances"]) < r["floor"]:
                self.fail_closed(rid, "instance floor not met: %d < %d (rule matched fewer sites than were confirmed by hand)"
                                 % (len(r["instances"]), r["floor"]))
        known, fixed = load_known(pid)
        out_lines = []
        unlisted = []
        listed = []
        for v in self.violations:
            if v.key in known:
                listed.append(v)
                out_lines.append("KNOWN-FINDING: property=%s key=%s :: %s" % (pid, v.key, known[v.key]))
            else:
                unlisted.append(v)
        vdir = os.path.join(EVDIR, "%s.violations" % pid)
        if os.path.isdir(vdir):
            for f in os.listdir(vdir):
                os.unlink(os.path.join(vdir, f))
        for v in unlisted:
            os.makedirs(vdir, exist_ok=True)
            h = hashlib.sha1(v.key.encode()).hexdigest()[:12]
            p = os.path.join(vdir, "%s.json" % h)
            json.dump({"property": pid, "key": v.key, "rule": v.rule, "file": v.file, "function": v.fn,
                       "construct": v.construct, "location": v.loc, "message": v.msg, "detail": v.detail},
                      open(p, "w"), indent=1)
            out_lines.append("  %s %s [%s] %s" % (v.rule, v.loc or v.file, v.fn, v.msg))
            out_lines.append("VIOLATION property=%s replay=%s" % (pid, p))
        for i, (rule, what) in enumerate(self.failclosed):
            os.makedirs(vdir, exist_ok=True)
            p = os.path.join(vdir, "failclosed-%d.json" % i)
            json.dump({"property": pid, "rule": rule, "fail_closed": what}, open(p, "w"), indent=1)
            out_lines.append("  FAIL-CLOSED %s: %s" % (rule, what))
            out_lines.append("VIOLATION property=%s replay=%s" % (pid, p))
        stale = [k for k in known if k not in {v.key for v in self.violations}]
        for k in stale:
            out_lines.append("note: known finding no longer reported (fixed upstream?): %s" % k)

        obligations = sum(len(r["instances"]) for r in self.rules.values())
        discharged = sum(r["discharged"] for r in self.rules.values())
        samples = []
        for rid, r in self.rules.items():
            for inst in r["instances"][:4]:
                samples.append({"rule": rid, "instance": inst})
        rules_out = {}
        for rid, r in self.rules.items():
            rules_out[rid] = {
                "rule": r["text"], "instances": len(r["instances"]), "discharged": r["discharged"],
                "violations": r["violations"], "unresolved": len(r["unresolved"]), "floor": r["floor"],
                "instance_list": r["instances"][:400], "unresolved_list": r["unresolved"][:100],
                "notes": r["notes"][:100],
            }
        distinct = len({json.dumps(i, sort_keys=True) for r in self.rules.values() for i in r["instances"]})
        ev = {
            "property_id": pid,
            "tier": self.tier,
            "seed": int(os.environ.get("VERIF_SEED", "0") or 0),
            "level": "other",
            "coverage": {
                "explanation": self.explanation,
                "obligations": obligations,
                "discharged": discharged,
                "evaluations": max(obligations, 1),
                "distinct_nontrivial": distinct,
                "rule": "each evaluation is one rule instance (a call site, CFG path set, table row or function) "
                        "found in the MIR facts of /repo's current tree; distinct = distinct instance descriptors",
                "samples": samples[:40] or [{"note": "no instances"}],
                "rules": rules_out,
                "violations_unlisted": [v.key for v in unlisted],
                "known_findings_reported": [v.key for v in listed],
                "fail_closed": ["%s: %s" % fc for fc in self.failclosed],
                "facts_dir": self.facts.path,
                "facts_meta": self.facts.meta,
                "bodies_in_fact_base": self.facts.n_bodies,
                "checker_cmd": "bin/check %s --tier %s" % (pid, self.tier),
                "trusted_base": ["rustc nightly front end + MIR construction (opt-level 0)",
                                 "driver/src/main.rs serialisation of MIR to JSON facts",
                                 "rules/*.py rule engine"],
                "notes": self.notes,
            },
            "assumptions": self.assumptions,
            "wall_s": round(time.time() - self.t0, 3),
            "violations": len(unlisted) + len(self.failclosed),
        }
        ev["coverage"].update(self.extra)
        os.makedirs(EVDIR, exist_ok=True)
        json.dump(ev, open(os.path.join(EVDIR, "%s.json" % pid), "w"), indent=1)
        print("%s: %d rule(s), %d instances, %d discharged, %d known finding(s), %d unlisted violation(s), %d fail-closed"
              % (pid, len(self.rules), obligations, discharged, len(listed), len(unlisted), len(self.failclosed)))
        for rid, r in self.rules.items():
            print("  %-6s instances=%-4d discharged=%-4d violations=%-3d unresolved=%-3d %s"
                  % (rid, len(r["instances"]), r["discharged"], r["violations"], len(r["unresolved"]), r["text"][:90]))
        for l in out_lines:
            print(l)
        sys.stdout.flush()
        return 1 if (unlisted or self.failclosed) else 0


def run_witness(chk, rid, what):
    """E3: type-level witnesses. quick tier = compile-pass items (cargo +nightly check of witness/); thorough tier additionally runs the
    compile_fail,E0xxx doctests with their compiling twins. The outcome is cached per fact base (same source tree)."""
    import subprocess
    mode = "thorough" if chk.tier == "thorough" else "quick"
    chk.rule(rid, "type-level witnesses (%s): %s" % (mode, what), floor=1)
    cache = os.path.join(chk.facts.path, "cache", "witness-%s.json" % mode)
    res = None
    if os.path.exists(cache):
        try:
            res = json.load(open(cache))
        except ValueError:
            res = None
    if res is None:
        env = dict(os.environ)
        env["VERIF_REPO"] = chk.repo
        p = subprocess.run([os.path.join(VERIF, "bin", "witness"), mode], capture_output=True, text=True, env=env)
        res = {"rc": p.returncode, "out": (p.stdout + p.stderr)[-3000:]}
        os.makedirs(os.path.dirname(cache), exist_ok=True)
        json.dump(res, open(cache, "w"))
    tests = [l for l in res["out"].splitlines() if l.startswith("test ")]
    d = {"mode": mode, "rc": res["rc"], "doctests": tests[:12]}
    chk.instance(rid, d, ok=(res["rc"] == 0))
    if res["rc"] != 0:
        chk.violation(rid, "witness/src/lib.rs", "vrl-witness", "witness crate (%s)" % mode,
                      "a type-level witness no longer holds: %s" % (res["out"].strip().splitlines()[-1] if res["out"].strip() else "cargo failed"), detail=d)
