#!/usr/bin/env python3
"""Thorough-tier extension: replays every committed mutant and adopted seed that targets the property against a scratch
worktree of /repo's CURRENT tree (never /repo itself), running the property's own check on each, and records which rule
caught it. This is the 'positive control' part of the thorough tier: it shows on every run that the armed rules are not
vacuous on this tree. A missed mutant is reported in the evidence (sensitivity), it is not a violation of the property."""
import glob
import json
import os
import subprocess
import sys
import time

VERIF = os.path.dirname(os.path.dirname(os.path.abspath(__file__)))


def main():
    pid = sys.argv[1]
    t0 = time.time()
    repo = os.environ.get("VERIF_REPO", "/repo")
    patches = sorted(glob.glob(os.path.join(VERIF, "mutants", "%s_*.patch" % pid)))
    for d in sorted(glob.glob(os.path.join(VERIF, "seeded", "%s-s*" % pid))):
        p = os.path.join(d, "patch.rebased.diff")
        if not os.path.exists(p):
            p = os.path.join(d, "patch.diff")
        if os.path.exists(p):
            patches.append(p)
    W = "/var/tmp/vrl-verif.thorough.%s" % pid
    subprocess.run(["git", "-C", repo, "worktree", "remove", "--force", W], capture_output=True)
    subprocess.run(["rm", "-rf", W])
    subprocess.run(["git", "-C", repo, "worktree", "prune"], capture_output=True)
    results = []
    benign = []
    try:
        # the scratch copy must reflect the current working tree, not only HEAD
        r = subprocess.run(["git", "-C", repo, "worktree", "add", "--detach", W, "HEAD"], capture_output=True, text=True)
        if r.returncode != 0:
            raise RuntimeError("cannot create scratch worktree: " + r.stderr[-200:])
        diff = subprocess.run(["git", "-C", repo, "diff", "HEAD"], capture_output=True, text=True).stdout
        if diff.strip():
            subprocess.run(["git", "-C", W, "apply"], input=diff, text=True)
        base = subprocess.run(["git", "-C", W, "diff"], capture_output=True, text=True).stdout
        env = dict(os.environ, VERIF_REPO=W, VERIF_TARGET_SUFFIX="-mut", VERIF_EVIDENCE_DIR="/var/tmp/vrl-verif.thorough.%s.evidence" % pid,
                   VERIF_TIER="quick")
        for p in patches:
            name = os.path.basename(os.path.dirname(p)) if "/seeded/" in p else os.path.basename(p)[:-6]
            subprocess.run(["git", "-C", W, "checkout", "-q", "--", "."])
            if base.strip():
                subprocess.run(["git", "-C", W, "apply"], input=base, text=True)
            a = subprocess.run(["git", "-C", W, "apply", p], capture_output=True, text=True)
            if a.returncode != 0:
                results.append({"patch": name, "outcome": "does-not-apply-to-current-tree"})
                continue
            c = subprocess.run([os.path.join(VERIF, "bin", "check"), pid, "--tier", "quick"], capture_output=True, text=True, env=env)
            lines = [l.strip() for l in c.stdout.splitlines() if l.startswith("  R") and "instances=" not in l or "FAIL-CLOSED" in l]
            results.append({"patch": name, "outcome": "caught" if c.returncode == 1 and "VIOLATION property=%s" % pid in c.stdout else "missed",
                            "first_report": (lines[0][:240] if lines else None)})
        # negative controls: behaviour-preserving refactors (benign/*.diff) must leave the check silent
        for p in sorted(glob.glob(os.path.join(VERIF, "benign", "b0[134567]_*.diff"))):
            subprocess.run(["git", "-C", W, "checkout", "-q", "--", "."])
            subprocess.run(["git", "-C", W, "clean", "-fdq"])
            if base.strip():
                subprocess.run(["git", "-C", W, "apply"], input=base, text=True)
            a = subprocess.run(["git", "-C", W, "apply", p], capture_output=True, text=True)
            if a.returncode != 0:
                benign.append({"patch": os.path.basename(p), "outcome": "does-not-apply-to-current-tree"})
                continue
            c = subprocess.run([os.path.join(VERIF, "bin", "check"), pid, "--tier", "quick"], capture_output=True, text=True, env=env)
            lines = [l.strip() for l in c.stdout.splitlines() if l.startswith("  R") and "instances=" not in l or "FAIL-CLOSED" in l]
            benign.append({"patch": os.path.basename(p), "outcome": "quiet" if c.returncode == 0 else "alarm", "first_report": (lines[0][:240] if lines else None)})
        subprocess.run(["git", "-C", W, "clean", "-fdq"])
    finally:
        subprocess.run(["git", "-C", repo, "worktree", "remove", "--force", W], capture_output=True)
        subprocess.run(["rm", "-rf", W, "/var/tmp/vrl-verif.thorough.%s.evidence" % pid])
        subprocess.run(["git", "-C", repo, "worktree", "prune"], capture_output=True)
    evp = os.path.join(os.environ.get("VERIF_EVIDENCE_DIR_MAIN") or os.path.join(VERIF, "evidence"), "%s.json" % pid)
    ev = json.load(open(evp))
    ev["coverage"]["thorough_positive_controls"] = {
        "what": "each committed mutant / adopted seeded change for this property applied to a scratch copy of the current tree and checked",
        "replayed": len(results), "caught": sum(1 for r in results if r["outcome"] == "caught"),
        "missed": [r["patch"] for r in results if r["outcome"] == "missed"], "results": results,
    }
    ev["coverage"]["thorough_negative_controls"] = {
        "what": "behaviour-preserving refactors (benign/*.diff: renamed bindings, reordered arms, extracted helpers, a new stdlib function, shifted lines) "
                "applied to a scratch copy of the current tree; the check must stay silent",
        "replayed": len(benign), "quiet": sum(1 for r in benign if r["outcome"] == "quiet"), "results": benign,
    }
    ev["wall_s"] = round(ev.get("wall_s", 0) + time.time() - t0, 3)
    json.dump(ev, open(evp, "w"), indent=1)
    print("thorough: %d positive controls replayed, %d caught, missed: %s; %d benign refactors replayed, %d quiet" % (
        len(results), ev["coverage"]["thorough_positive_controls"]["caught"], ev["coverage"]["thorough_positive_controls"]["missed"],
        len(benign), ev["coverage"]["thorough_negative_controls"]["quiet"]))


if __name__ == "__main__":
    main()
