"""C06 — `return` always ends the program (or the closure iteration) (clauses R06a, R06b)."""
from facts import op_place, flow_sources
import absorb
import p_c07

RUNNER_PREFIX = "compiler::function::closure::Runner::<'a, T>::"


def has_return_conversion(b, is_src_callee):
    """does body b move `(<src result> as Err).0 as Return).value` somewhere?"""
    for bi, si, s in b.iter_stmts():
        rv = s["rv"]
        if rv["k"] != "use":
            continue
        p = op_place(rv["op"])
        if p is None:
            continue
        names = [e.get("v") or e.get("f") for e in p.get("p", []) if isinstance(e, dict)]
        if names[-4:] != ["Err", "0", "Return", "value"] and names[-2:] != ["Return", "value"]:
            continue
        if any(x[0] == "call" and is_src_callee(x[2]) for x in flow_sources(b, p["l"])):
            return True, "%s:%s" % (b.file, s.get("ln"))
    return False, None


def run(chk):
    chk.explanation = (
        "Decides the error-absorption discipline for ExpressionError::Return (clauses R06a, R06b of DESIGN.md §4 C06), "
        "not the behaviour of `return` on all programs. R06a: as R07a for the Return variant — no feasible absorb site of an "
        "expression-originated error may still hold Return (so `??`, `ok, err =`, `||`, function-call wrappers cannot swallow or "
        "re-label it). R06b: Return is converted to a value exactly in Runtime::resolve and in *every* Runner method that invokes the "
        "closure (sibling agreement across object/array/map_key/map_value iteration). R06c: in the resolve of every compiler expression a child "
        "expression is evaluated only in P-VAR states where every earlier child's Result is Ok (the `??` arm is the one reviewed exception), so no side "
        "effect of the same expression happens after a `return`. R06d: the value inside ExpressionError::Return is moved out (which ends the return "
        "without any drop) only in Runtime::resolve and closure::Runner::call. Undecided: the value carried, effects of *other* expressions after a return.")
    chk.assumptions += p_assumptions()
    absorb.check_absorb(chk, "R06a", "Return", "return can be swallowed or re-labelled")

    rid = "R06b"
    chk.rule(rid, "Return -> Ok(value) conversion present in Runtime::resolve and in every Runner method that calls the closure", floor=5)
    m = p_c07.terminate_mapping(chk, rid)
    if m is not None:
        d = {"fn": p_c07.RUNTIME_RESOLVE, "outcome": "Ok", "from": sorted(m.get("Ok", set()))}
        if "Return" in m.get("Ok", set()):
            chk.instance(rid, d, ok=True)
        else:
            chk.instance(rid, d, ok=False)
            chk.violation(rid, "src/compiler/runtime.rs", p_c07.RUNTIME_RESOLVE, "Return->Ok conversion missing",
                          "Runtime::resolve does not turn ExpressionError::Return into Ok(value)", detail=d)
        for outcome in ("Terminate::Abort", "Terminate::Error"):
            if "Return" in m.get(outcome, set()):
                chk.violation(rid, "src/compiler/runtime.rs", p_c07.RUNTIME_RESOLVE, "Return mapped to %s" % outcome,
                              "ExpressionError::Return reaches %s" % outcome)
    facts = chk.facts
    is_fn_call = lambda c: c.startswith("? std::ops::Fn") or c.startswith("? core::ops::function::Fn")
    entries = [n for n in facts.names() if n.startswith(RUNNER_PREFIX) and "::{closure" not in n
               and absorb_insert() in facts.callees(n)]
    for n in entries:
        b = facts.body(n)
        fam, _, _ = facts.reach([n], stop=lambda c: not c.startswith(RUNNER_PREFIX))
        callers_of_closure = [m for m in fam if any(is_fn_call(c) for c in facts.callees(m))]
        d = {"entry": n, "at": "%s:%d" % (b.file, b.line), "closure_invoked_in": sorted(callers_of_closure), "conversion_at": []}
        if not callers_of_closure:
            chk.instance(rid, d, ok=None)
            chk.fail_closed(rid, "Runner entry point %s inserts closure parameters but no closure invocation is reachable inside Runner" % n)
            continue
        bad = []
        for m in callers_of_closure:
            mb = facts.body(m)
            ok, where = has_return_conversion(mb, lambda c: c.startswith("std::ops::Fn") or c.startswith("core::ops::function::Fn"))
            if ok:
                d["conversion_at"].append(where)
            else:
                bad.append(m)
        if not bad:
            chk.instance(rid, d, ok=True)
        else:
            chk.instance(rid, d, ok=False)
            chk.violation(rid, b.file, n, "Return->value conversion missing",
                          "closure runner entry point invokes the closure (in %s) without converting ExpressionError::Return into the "
                          "iteration's value, unlike its siblings: `return` inside this kind of closure escapes the iteration" % bad[0],
                          detail=d, loc="%s:%d" % (b.file, b.line))


def absorb_insert():
    return "compiler::function::closure::insert"


def p_assumptions():
    return [
        "every way an ExpressionError value can cease to exist in safe Rust is a Drop terminator, a move into a callee, or "
        "a move into the return place; external callees receiving one by value are restricted to the reviewed PASS_ON/ABSORBING tables (anything else fails closed)",
        "an error is 'expression-originated' when it derives from a resolve-family call, a generic Fn call, a local function that "
        "transitively contains one, or is the parameter of a closure/function (conservative)",
        "closure runners are exactly the methods of compiler::function::closure::Runner that call the generic closure (floor: 4)",
    ]


def _siblings(chk):
    import siblings
    siblings.rule_sibling_evaluation(chk, "R06c", "returned")
    siblings.rule_iteration_stops(chk, "R06e", "returned")
    rule_r06d(chk)


RETURN_CONVERTERS = {
    "compiler::runtime::Runtime::resolve": "a `return` ends the program with its value",
    "compiler::function::closure::Runner::<'a, T>::call": "a `return` inside a closure body ends that invocation with its value (R06b)",
}


def rule_r06d(chk):
    """who may take the value out of ExpressionError::Return: destructuring moves the payload without any Drop terminator, so R06a cannot see it"""
    facts = chk.facts
    rid = "R06d"
    chk.rule(rid, "the value carried by ExpressionError::Return is moved out only in Runtime::resolve and closure::Runner::call", floor=2)
    seen = {}
    for n in facts.grep('"v":"Return"'):
        b = facts.body(n)
        for bi, si, st in b.iter_stmts():
            rv = st["rv"]
            ops = [rv.get("op"), rv.get("a"), rv.get("b")] + list(rv.get("ops", []))
            for op in ops:
                if not (isinstance(op, dict) and op.get("k") == "move"):
                    continue
                proj = op["p"].get("p", [])
                if any(isinstance(e, dict) and e.get("v") == "Return" for e in proj) and "value" in [e.get("f") for e in proj if isinstance(e, dict)]:
                    if "ExpressionError" in b.local_ty(op["p"]["l"]) or "expression_error" in b.local_ty(op["p"]["l"]):
                        seen.setdefault(n.split("::{closure")[0], []).append(st.get("ln"))
    for n, lines in sorted(seen.items()):
        d = {"fn": n, "lines": lines, "reviewed": RETURN_CONVERTERS.get(n)}
        ok = n in RETURN_CONVERTERS
        chk.instance(rid, d, ok=ok)
        if not ok:
            nb = facts.body(n) if facts.has(n) else None
            chk.violation(rid, nb.file if nb else "src", n, "Return payload taken out",
                          "%s takes the value out of ExpressionError::Return (line %s) and so ends the `return` there: only Runtime::resolve (program) and the "
                          "closure runner (closure body) may do that" % (n, lines[0]), detail=d, loc=("%s:%s" % (nb.file, lines[0])) if nb else None)
    for n in RETURN_CONVERTERS:
        if n not in seen:
            chk.fail_closed(rid, "expected converter %s no longer takes the Return value out (re-anchor R06d/R06b)" % n)
