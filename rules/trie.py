"""P-TRIE: reconstruct literal dispatch (`match s { "A" => .., "B" => .. }`) from MIR.
Two lowerings are understood: a chain of `<str as PartialEq>::eq(x, const "A")` calls, and for byte-slice
patterns a length test followed by a per-byte `switchInt((*p)[i])` trie. Returns literal -> leaf block."""
import re
from facts import op_local, op_place
import cfgq

STR_EQ = re.compile(r"(impl std::cmp::PartialEq for str>::eq$|<str as std::cmp::PartialEq>::eq$|PartialEq<str> for|PartialEq<&str> for|"
                    r"std::cmp::impls::<impl std::cmp::PartialEq<&B> for &A>::eq$|impl std::cmp::PartialEq for &str>::eq$)")


def _const_str_of(facts, b, op):
    if op.get("k") == "const" and "str" in op:
        return op["str"]
    l = op_local(op)
    if l is None:
        return None
    strs = cfgq.derived_const_strs(facts, b, l)
    strs = [s for s in strs]
    return strs[0] if len(set(strs)) == 1 else None


def str_eq_dispatch(facts, b):
    """{literal: true-edge block} for every str equality test against a constant, plus list of (bb) tests"""
    out = {}
    tests = []
    for bb, t in b.calls():
        cal = b.callee(t)
        full = t.get("rfn_full") or t.get("fn_full") or ""
        if not (STR_EQ.search(cal) or ("PartialEq" in cal and cal.endswith("::eq") and ("str" in full))):
            continue
        lits = [_const_str_of(facts, b, a) for a in t["args"]]
        lits = [x for x in lits if x is not None]
        if len(lits) != 1:
            continue
        edges = cfgq.bool_switch_after_call(b, bb)
        if edges is None:
            continue
        out.setdefault(lits[0], []).append(edges[0])
        tests.append(bb)
    return out, tests


def byte_trie_dispatch(b):
    """{bytes literal (latin-1 str): leaf block}"""
    out = {}
    # length tests: Eq(len, const N) where len derives from PtrMetadata
    len_tests = {}
    for bi, blk in enumerate(b.blocks):
        if blk.get("cleanup"):
            continue
        n = None
        for s in blk["s"]:
            rv = s["rv"]
            if rv["k"] == "binop" and rv["op"] == "Eq" and rv["tya"] == "usize":
                for key in ("a", "b"):
                    if rv[key].get("k") == "const" and "int" in rv[key]:
                        n = int(rv[key]["int"])
                    else:
                        l = op_local(rv[key])
                        if l is not None:
                            for kind, dbb, dsi, dx in b.defs().get(l, []):
                                if kind == "stmt" and dx["rv"]["k"] == "use" and dx["rv"]["op"].get("k") == "const" and "int" in dx["rv"]["op"]:
                                    n = int(dx["rv"]["op"]["int"])
        t = blk["t"]
        if n is not None and t["k"] == "switch" and t.get("ty") == "bool" and any(s["rv"]["k"] == "unop" and s["rv"]["op"] == "PtrMetadata" for s in blk["s"]):
            true_bb = t["otherwise"]
            for val, tgt in t["targets"]:
                if val == "1":
                    true_bb = tgt
            len_tests[bi] = (n, true_bb)

    def is_byte_switch(bi):
        t = b.term(bi)
        if t["k"] != "switch" or t.get("ty") != "u8":
            return None
        p = op_place(t["op"])
        if p is None:
            return None
        idx = [e["cidx"] for e in p.get("p", []) if isinstance(e, dict) and "cidx" in e]
        return idx[0] if idx else None

    for lb, (n, start) in len_tests.items():
        stack = [(start, {})]
        seen = 0
        while stack and seen < 5000:
            seen += 1
            bi, known = stack.pop()
            idx = is_byte_switch(bi)
            if idx is None or b.stmts(bi):
                if len(known) == n:
                    lit = bytes(known[i] for i in range(n)).decode("latin-1")
                    out.setdefault(lit, []).append(bi)
                continue
            for val, tgt in b.term(bi)["targets"]:
                k2 = dict(known)
                k2[idx] = int(val)
                stack.append((tgt, k2))
    return out


def literal_dispatch(facts, b):
    d, tests = str_eq_dispatch(facts, b)
    bt = byte_trie_dispatch(b)
    for k, v in bt.items():
        d.setdefault(k, []).extend(v)
    return d


def leaf_signatures(facts, b, dispatch):
    """{literal: set of tokens} — tokens are the instantiated callee names and referenced const items in the blocks reachable from
    the literal's leaf and from no other literal's leaf"""
    reach = {}
    for lit, leaves in dispatch.items():
        reach[lit] = b.reachable_from_edges(leaves)
    count = {}
    for lit, r in reach.items():
        for x in r:
            count[x] = count.get(x, 0) + 1
    # group literals sharing the same leaf (alternatives "A" | "B")
    sig = {}
    for lit, r in reach.items():
        same = [l2 for l2, r2 in reach.items() if set(dispatch[l2]) == set(dispatch[lit])]
        excl = {x for x in r if count[x] <= len(same)}
        toks = set()
        for x in excl:
            t = b.term(x)
            if t["k"] == "call":
                toks.add(t.get("rfn_full") or t.get("fn_full") or b.callee(t))
                for a in t["args"]:
                    if a.get("k") == "const" and (a.get("item") or a.get("static")):
                        toks.add("item:" + (a.get("item") or a.get("static")))
            for s in b.stmts(x):
                rv = s["rv"]
                for op in [rv.get("op"), rv.get("a"), rv.get("b")] + list(rv.get("ops", [])):
                    if isinstance(op, dict) and op.get("k") == "const":
                        if op.get("item"):
                            nm = op["item"]
                            toks.add("item:" + nm)
                            if "promoted" in op:
                                pn = "%s::{promoted#%d}" % (nm, op["promoted"])
                                if facts.has(pn):
                                    pb = facts.body(pn)
                                    for bi2, si2, s2 in pb.iter_stmts():
                                        for op2 in [s2["rv"].get("op")] + list(s2["rv"].get("ops", [])):
                                            if isinstance(op2, dict) and (op2.get("item") or op2.get("static")):
                                                toks.add("item:" + (op2.get("item") or op2.get("static")))
                        if op.get("static"):
                            toks.add("item:" + op["static"])
        sig[lit] = toks
    return sig


def norm(s):
    return re.sub(r"[^a-z0-9]", "", s.lower())


def name_tokens(sig):
    """all path segments / generic type names mentioned in a signature, normalised"""
    out = set()
    for t in sig:
        for seg in re.split(r"[^A-Za-z0-9_]+", t):
            if seg:
                out.add(norm(seg))
    return out
