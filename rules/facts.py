"""Fact base loader and analysis primitives over the MIR facts written by driver/ (vrl-facts).

Nothing here executes the analysed code. Everything is graph/dataflow computation over the
serialised, type-checked, trait-resolved MIR of the `vrl` crate.
"""
import json
import os
from collections import defaultdict, deque


class AnchorMissing(Exception):
    """A rule's anchor (function/type it keys on) is not in the fact base: fail closed."""


# ---------------------------------------------------------------------------------------------
# places / operands helpers


def place_local(p):
    return p["l"]


def place_proj(p):
    return p.get("p", [])


def proj_fields(p):
    """field names along the projection (ignoring derefs/downcasts)"""
    out = []
    for e in place_proj(p):
        if isinstance(e, dict) and "f" in e:
            out.append(e["f"])
    return out


def proj_str(p):
    s = "_%d" % p["l"]
    for e in place_proj(p):
        if e == "*":
            s = "(*%s)" % s
        elif isinstance(e, dict) and "f" in e:
            s += "." + e["f"]
        elif isinstance(e, dict) and "v" in e:
            s += " as " + e["v"]
        elif isinstance(e, dict) and "idx" in e:
            s += "[_%d]" % e["idx"]
        elif isinstance(e, dict) and "cidx" in e:
            s += "[%d]" % e["cidx"]
        else:
            s += "<%s>" % (e,)
    return s


def op_place(op):
    if op.get("k") in ("copy", "move"):
        return op["p"]
    return None


def op_local(op):
    p = op_place(op)
    return p["l"] if p is not None else None


def op_const(op):
    return op if op.get("k") == "const" else None


def const_value(op):
    """decoded python value of a constant operand, or None"""
    if op.get("k") != "const":
        return None
    for k in ("str", "int", "bool", "char", "float", "bytes"):
        if k in op:
            v = op[k]
            if k == "int":
                try:
                    return int(v)
                except ValueError:
                    return v
            return v
    return None


# ---------------------------------------------------------------------------------------------


class Body:
    def __init__(self, d):
        self.d = d
        self.name = d["name"]
        self.kind = d["kind"]
        self.file = d["file"]
        self.line = d["line"]
        self.argc = d["argc"]
        self.locals = d["locals"]
        self.blocks = d["blocks"]
        self.parent = d.get("parent")
        self.impl_self = d.get("impl_self")
        self.impl_trait = d.get("impl_trait")
        self.item_name = d.get("item_name")
        self.upvars = d.get("upvars", [])
        self._succ = None
        self._pred = None
        self._dom = None
        self._pdom = None
        self._defs = None

    # -- CFG ------------------------------------------------------------------------------
    def is_cleanup(self, bb):
        return bool(self.blocks[bb].get("cleanup"))

    def term(self, bb):
        return self.blocks[bb]["t"]

    def stmts(self, bb):
        return self.blocks[bb]["s"]

    def local_ty(self, l):
        return self.locals[l]["ty"]

    def local_name(self, l):
        return self.locals[l].get("n")

    def succ(self, bb):
        """non-unwind successors"""
        if self._succ is None:
            self._succ = []
            for b in self.blocks:
                t = b["t"]
                k = t["k"]
                s = []
                if k in ("goto", "drop", "assert"):
                    s = [t["t"]]
                elif k == "call":
                    if "t" in t:
                        s = [t["t"]]
                elif k == "switch":
                    s = [x[1] for x in t["targets"]] + [t["otherwise"]]
                elif k == "other":
                    s = list(t.get("succ", []))
                # drop duplicates preserving order; drop cleanup targets
                seen = []
                for x in s:
                    if x not in seen and not self.blocks[x].get("cleanup"):
                        seen.append(x)
                self._succ.append(seen)
        return self._succ[bb]

    def pred(self, bb):
        if self._pred is None:
            self._pred = [[] for _ in self.blocks]
            for i in range(len(self.blocks)):
                if self.is_cleanup(i):
                    continue
                for s in self.succ(i):
                    self._pred[s].append(i)
        return self._pred[bb]

    def reachable(self, start=0, avoid=()):
        seen = set()
        dq = deque([start])
        avoid = set(avoid)
        while dq:
            b = dq.popleft()
            if b in seen or b in avoid:
                continue
            seen.add(b)
            for s in self.succ(b):
                dq.append(s)
        return seen

    def reachable_from_edges(self, starts, avoid=()):
        seen = set()
        dq = deque(starts)
        avoid = set(avoid)
        while dq:
            b = dq.popleft()
            if b in seen or b in avoid:
                continue
            seen.add(b)
            for s in self.succ(b):
                dq.append(s)
        return seen

    def return_blocks(self):
        return [i for i, b in enumerate(self.blocks) if b["t"]["k"] == "return" and not b.get("cleanup")]

    def dominators(self):
        """dom[b] = set of blocks dominating b (iterative, non-cleanup CFG from block 0)"""
        if self._dom is None:
            nodes = sorted(self.reachable(0))
            allset = set(nodes)
            dom = {n: set(allset) for n in nodes}
            dom[0] = {0}
            changed = True
            while changed:
                changed = False
                for n in nodes:
                    if n == 0:
                        continue
                    ps = [p for p in self.pred(n) if p in dom]
                    if not ps:
                        continue
                    new = set.intersection(*[dom[p] for p in ps]) | {n}
                    if new != dom[n]:
                        dom[n] = new
                        changed = True
            self._dom = dom
        return self._dom

    def dominates(self, a, b):
        d = self.dominators()
        return b in d and a in d[b]

    def all_paths_from_pass_through(self, start, through, exits=None):
        """MUST-AFTER: does every path from block `start` (exclusive of start's own body)
        to a Return block pass through one of `through` blocks? Implemented as: no Return is
        reachable from start's successors when `through` blocks are removed."""
        through = set(through)
        exits = set(exits) if exits is not None else set(self.return_blocks())
        seen = set()
        dq = deque(self.succ(start))
        while dq:
            b = dq.popleft()
            if b in seen or b in through:
                continue
            seen.add(b)
            if b in exits:
                return False, b
            for s in self.succ(b):
                dq.append(s)
        return True, None

    # -- defs/uses ------------------------------------------------------------------------
    def iter_stmts(self):
        for bi, b in enumerate(self.blocks):
            if b.get("cleanup"):
                continue
            for si, s in enumerate(b["s"]):
                yield bi, si, s

    def iter_terms(self, kind=None):
        for bi, b in enumerate(self.blocks):
            if b.get("cleanup"):
                continue
            t = b["t"]
            if kind is None or t["k"] == kind:
                yield bi, t

    def calls(self):
        return list(self.iter_terms("call"))

    def defs(self):
        """local -> list of ('stmt', bb, si, stmt) / ('call', bb, term) definitions
        (whole-local or projected writes)"""
        if self._defs is None:
            d = defaultdict(list)
            for bi, si, s in self.iter_stmts():
                d[s["d"]["l"]].append(("stmt", bi, si, s))
            for bi, t in self.iter_terms("call"):
                d[t["dest"]["l"]].append(("call", bi, None, t))
            self._defs = d
        return self._defs

    def callee(self, t):
        """best name for a call terminator: resolved def path, else declared path"""
        return t.get("rfn") or t.get("fn") or ("ptr:" + t.get("fnptr", "?"))

    def loc(self, t_or_s, bb=None):
        f = t_or_s.get("file", self.file)
        return "%s:%s" % (f, t_or_s.get("ln", self.line))


# ---------------------------------------------------------------------------------------------


class Facts:
    def __init__(self, path):
        self.path = path
        self.meta = json.load(open(os.path.join(path, "meta.json")))
        self.index = json.load(open(os.path.join(path, "index.json")))
        self.by_name = {}
        for i in self.index:
            # a name may repeat (cfg variants are not both compiled, but generic shims may); keep first
            self.by_name.setdefault(i["name"], i)
        self.adts = {a["name"]: a for a in json.load(open(os.path.join(path, "adts.json")))}
        self.impls = json.load(open(os.path.join(path, "impls.json")))
        self.statics = json.load(open(os.path.join(path, "statics.json")))
        self._f = open(os.path.join(path, "bodies.jsonl"), "rb")
        self._cache = {}
        self._callers = None
        self._cha = None
        self._closures = None
        self._promoteds = None
        self.n_bodies = len(self.index)

    # -- bodies ---------------------------------------------------------------------------
    def has(self, name):
        return name in self.by_name

    def body(self, name):
        if name in self._cache:
            return self._cache[name]
        i = self.by_name.get(name)
        if i is None:
            raise AnchorMissing("body not found in facts: %s" % name)
        self._f.seek(i["off"])
        b = Body(json.loads(self._f.read(i["len"])))
        self._cache[name] = b
        return b

    def names(self, pred=None):
        return [i["name"] for i in self.index if pred is None or pred(i["name"])]

    def find(self, substr):
        return [i["name"] for i in self.index if substr in i["name"]]

    def _build_children(self):
        self._closures = {}
        self._promoteds = {}
        for i in self.index:
            n = i["name"]
            k = n.find("::{closure#")
            if k >= 0:
                # register under every ancestor prefix (transitively nested closures)
                pos = 0
                while True:
                    k = n.find("::{closure#", pos)
                    if k < 0:
                        break
                    self._closures.setdefault(n[:k], []).append(n)
                    pos = k + 1
            k = n.rfind("::{promoted#")
            if k >= 0:
                self._promoteds.setdefault(n[:k], []).append(n)

    def closures_of(self, name):
        """all (transitively nested) closure bodies of a function"""
        if self._closures is None:
            self._build_children()
        return [c for c in self._closures.get(name, []) if "::{promoted#" not in c[len(name):] or True]

    def promoteds_of(self, name):
        if self._closures is None:
            self._build_children()
        return list(self._promoteds.get(name, []))

    def family(self, name):
        """a function plus its closures (the unit a human reads as 'the function')"""
        return [name] + self.closures_of(name)

    # -- call graph -----------------------------------------------------------------------
    def callees(self, name):
        i = self.by_name.get(name)
        return i["callees"] if i else []

    def callers(self, callee):
        if self._callers is None:
            c = defaultdict(list)
            for i in self.index:
                for cal in i["callees"]:
                    c[cal].append(i["name"])
            self._callers = c
        return self._callers.get(callee, [])

    def reach(self, roots, stop=lambda callee: False, include_closures=True, max_nodes=200000, cha=True):
        """P-CG: set of local bodies reachable from roots via resolved static edges.
        Returns (local_nodes, external_callees (incl. 'dyn X' / '? X' / 'ptr X'), edge_parent)
        Closures defined in a visited function are treated as reachable (they are values the
        function creates; over-approximation)."""
        seen = set()
        ext = {}
        parent = {}
        dq = deque()
        for r in roots:
            dq.append(r)
            parent.setdefault(r, None)
        while dq:
            n = dq.popleft()
            if n in seen:
                continue
            if n not in self.by_name:
                continue
            seen.add(n)
            if len(seen) > max_nodes:
                break
            nxt = list(self.callees(n))
            if include_closures:
                nxt += self.closures_of(n)
            if cha:
                more = []
                for c in nxt:
                    if (c.startswith("dyn ") or c.startswith("? ")) and not stop(c):
                        more.extend(self.cha_targets(c))
                nxt += more
            for c in nxt:
                if stop(c):
                    ext.setdefault(c, n)
                    continue
                if c in self.by_name:
                    if c not in parent:
                        parent[c] = n
                    dq.append(c)
                else:
                    ext.setdefault(c, n)
        return seen, ext, parent

    def cha_targets(self, callee):
        """class-hierarchy expansion of a symbolic `dyn Trait::m` / `? Trait::m` edge to the local impls"""
        if self._cha is None:
            self._cha = {}
            for imp in self.impls:
                for it in imp["items"]:
                    self._cha.setdefault((imp["trait"], it["name"]), []).append(it["path"])
        c = callee.split(" ", 1)[1]
        if "::" not in c:
            return []
        tr, m = c.rsplit("::", 1)
        return self._cha.get((tr, m), [])

    def path_to(self, parent, node):
        out = []
        while node is not None:
            out.append(node)
            node = parent.get(node)
        return list(reversed(out))

    # -- impls ----------------------------------------------------------------------------
    def impls_of(self, trait):
        return [i for i in self.impls if i["trait"] == trait]

    def impl_method(self, trait, self_ty, method):
        n = "<%s as %s>::%s" % (self_ty, trait, method)
        return n if n in self.by_name else None


# ---------------------------------------------------------------------------------------------
# P-FLOW: flow-insensitive derives-from closure inside one body


PASS_THROUGH_SUFFIXES = (
    "::clone", "::into", "::from", "::deref", "::deref_mut", "::as_ref", "::as_mut", "::borrow",
    "::borrow_mut", "::to_owned", "::cloned", "::copied", "::as_deref", "::as_deref_mut",
    "::unwrap_or", "::map", "::branch", "::from_residual", "::from_output", "::into_iter", "::iter",
    "::next", "::new", "::as_str", "::as_bytes", "::to_string", "::as_slice", "::transpose", "::flatten",
    "::ok_or", "::ok_or_else", "::and_then", "::ok", "::unwrap_or_default", "::unwrap_or_else", "::map_err",
)


def is_pass_through(callee):
    base = callee.split("::{closure")[0]
    return any(base.endswith(s) for s in PASS_THROUGH_SUFFIXES)


def flow_sources(body, local, pass_through=is_pass_through, max_steps=10000, field=None):
    """Backward closure: which 'sources' can the value in `local` derive from?
    Returns a set of tuples:
       ('arg', n)                 function argument local n (1..argc)
       ('call', bb, callee)       result of a (non pass-through) call
       ('const', repr)            a constant
       ('agg', bb, adt, variant)  an aggregate construction
       ('upvar', fieldname)       closure capture
    Projections are ignored except that reading a field of an arg is ('arg', n) still.
    """
    out = set()
    seen = set()
    work = [local]
    defs = body.defs()
    steps = 0
    while work:
        l = work.pop()
        if l in seen:
            continue
        seen.add(l)
        steps += 1
        if steps > max_steps:
            break
        if 1 <= l <= body.argc:
            out.add(("arg", l))
        for kind, bb, si, x in defs.get(l, []):
            if kind == "call":
                cal = body.callee(x)
                if pass_through(cal):
                    for a in x["args"]:
                        al = op_local(a)
                        if al is not None:
                            work.append(al)
                        elif a.get("k") == "const":
                            out.add(("const", json.dumps(a, sort_keys=True)[:200]))
                    out.add(("via", bb, cal))
                else:
                    out.add(("call", bb, cal))
            else:
                rv = x["rv"]
                k = rv["k"]
                if k in ("use", "cast", "repeat"):
                    op = rv["op"]
                    al = op_local(op)
                    if al is not None:
                        work.append(al)
                    elif op.get("k") == "const":
                        out.add(("const", json.dumps(op, sort_keys=True)[:200]))
                elif k in ("ref", "rawptr"):
                    work.append(rv["p"]["l"])
                elif k == "discr":
                    work.append(rv["p"]["l"])
                elif k in ("binop",):
                    for key in ("a", "b"):
                        al = op_local(rv[key])
                        if al is not None:
                            work.append(al)
                elif k == "unop":
                    al = op_local(rv["a"])
                    if al is not None:
                        work.append(al)
                elif k == "agg":
                    out.add(("agg", bb, rv.get("adt"), rv.get("variant")))
                    for op in rv["ops"]:
                        al = op_local(op)
                        if al is not None:
                            work.append(al)
                        elif op.get("k") == "const":
                            out.add(("const", json.dumps(op, sort_keys=True)[:200]))
    return out


def uses_of(body, local):
    """forward: list of (where, what) that read `local` (any projection)"""
    out = []
    def op_reads(op):
        return op_local(op) == local
    for bi, si, s in body.iter_stmts():
        rv = s["rv"]
        k = rv["k"]
        hit = False
        if k in ("use", "cast", "repeat") and op_reads(rv["op"]):
            hit = True
        elif k in ("ref", "rawptr", "discr") and rv["p"]["l"] == local:
            hit = True
        elif k == "binop" and (op_reads(rv["a"]) or op_reads(rv["b"])):
            hit = True
        elif k == "unop" and op_reads(rv["a"]):
            hit = True
        elif k == "agg" and any(op_reads(o) for o in rv["ops"]):
            hit = True
        if hit:
            out.append(("stmt", bi, si, s))
    for bi, t in body.iter_terms():
        k = t["k"]
        if k == "call" and any(op_reads(a) for a in t["args"]):
            out.append(("call", bi, None, t))
        elif k == "switch" and op_reads(t["op"]):
            out.append(("switch", bi, None, t))
        elif k == "drop" and t["p"]["l"] == local:
            out.append(("drop", bi, None, t))
        elif k == "assert" and op_reads(t["cond"]):
            out.append(("assert", bi, None, t))
    return out


def forward_taint(body, seeds, pass_through=is_pass_through, through_calls=True):
    """forward closure of locals that derive from `seeds` (set of locals). Flow-insensitive.
    A call result derives from a tainted argument when the callee is pass-through (or any call if
    through_calls == 'all')."""
    tainted = set(seeds)
    changed = True
    while changed:
        changed = False
        for bi, si, s in body.iter_stmts():
            d = s["d"]["l"]
            if d in tainted:
                continue
            rv = s["rv"]
            k = rv["k"]
            src = []
            if k in ("use", "cast", "repeat"):
                src = [op_local(rv["op"])]
            elif k in ("ref", "rawptr", "discr"):
                src = [rv["p"]["l"]]
            elif k == "binop":
                src = [op_local(rv["a"]), op_local(rv["b"])]
            elif k == "unop":
                src = [op_local(rv["a"])]
            elif k == "agg":
                src = [op_local(o) for o in rv["ops"]]
            if any(x in tainted for x in src if x is not None):
                tainted.add(d)
                changed = True
        for bi, t in body.iter_terms("call"):
            d = t["dest"]["l"]
            if d in tainted:
                continue
            cal = body.callee(t)
            if through_calls == "all" or (through_calls and pass_through(cal)):
                if any(op_local(a) in tainted for a in t["args"] if op_local(a) is not None):
                    tainted.add(d)
                    changed = True
    return tainted


# ---------------------------------------------------------------------------------------------
# P-VAR: variant refinement


def discr_switches(body):
    """yield (bb, place, adt, {variant_name: target_bb}, otherwise_bb) for every
    `switchInt(discriminant(place))` (the discriminant read must be in the same block or the
    switch operand local must have exactly one def which is a discr rvalue)."""
    defs = body.defs()
    for bi, t in body.iter_terms("switch"):
        l = op_local(t["op"])
        if l is None:
            continue
        ds = defs.get(l, [])
        if len(ds) != 1 or ds[0][0] != "stmt":
            continue
        rv = ds[0][3]["rv"]
        if rv["k"] != "discr":
            continue
        yield bi, rv["p"], rv.get("adt"), t


def variant_map(facts, adt_name):
    a = facts.adts.get(adt_name)
    if not a:
        return {}
    return {v.get("discr", str(v["idx"])): v["name"] for v in a["variants"]}


def switch_variant_targets(facts, adt_name, t):
    """returns ({variant: bb}, otherwise_bb, [variants going to otherwise])"""
    vm = variant_map(facts, adt_name)
    tg = {}
    for val, bb in t["targets"]:
        tg[vm.get(val, "#" + val)] = bb
    rest = [n for n in vm.values() if n not in tg]
    return tg, t["otherwise"], rest


# ---------------------------------------------------------------------------------------------
# raw scanning (cheap prefilter before JSON parsing)

def _grep(self, *needles, mode="any"):
    """names of bodies whose raw JSON line contains any/all of the byte needles"""
    nb = [n.encode() if isinstance(n, str) else n for n in needles]
    out = []
    self._f.seek(0)
    data = self._f.read()
    for i in self.index:
        line = data[i["off"]: i["off"] + i["len"]]
        hits = [n in line for n in nb]
        if (mode == "any" and any(hits)) or (mode == "all" and all(hits)):
            out.append(i["name"])
    return out


Facts.grep = _grep
