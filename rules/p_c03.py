"""C03 — every stdlib function honours its declared signature (table-agreement clauses)."""
import stdlibrules as sr


def run(chk):
    chk.explanation = (
        "Decides table-agreement clauses between what each of the ~200 functions declares and what its code does, not semantic correctness of results. "
        "R03a: every keyword compile() asks the ArgumentList for is declared in PARAMETERS (and required getters are only used on required/defaulted "
        "parameters). R03d: in resolve-reachable stdlib code no coercion result (VrlValueConvert::try_*, Value::as_*) is consumed by unwrap/expect — "
        "progressive type checking lets `f!(.x)` deliver a wrong-typed value to resolve, which must yield an error. R03f: the call builder's progressive type check compares parameter.kind() with the argument's own unmodified kind and records every partial match. Undecided: element kinds of returned collections, semantic correctness.")
    M = sr.function_model(chk.facts)
    sr.rule_keyword_agreement(chk, "R03a", M)
    sr.rule_coercion_unwrapped(chk, "R03d", M)
    sr.rule_progressive_type_check(chk, "R03f")
