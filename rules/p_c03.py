"""C03 — every stdlib function honours its declared signature (table-agreement clauses)."""
import re
import stdlibrules as sr
from facts import op_local


def run(chk):
    chk.explanation = (
        "Decides table-agreement clauses between what each of the ~200 functions declares and what its code does, not semantic correctness of results. "
        "R03a: every keyword compile() asks the ArgumentList for is declared in PARAMETERS (and required getters are only used on required/defaulted "
        "parameters). R03d: in resolve-reachable stdlib code no coercion result (VrlValueConvert::try_*, Value::as_*) is consumed by unwrap/expect — "
        "progressive type checking lets `f!(.x)` deliver a wrong-typed value to resolve, which must yield an error. R03f: the call builder's progressive type check compares parameter.kind() with the argument's own unmodified kind and records every partial match. "
        "R03c (documented return kinds): the Value variants a function's resolve can return — read from the MIR by classifying the producers of the returned "
        "value (P-RET: Value::X constructions, From/Into<Value> conversions by source type, results of local helpers; an operand handed back unchanged is "
        "'unknown' and never reported) — are inside the kinds `Function::return_kind()` declares. R03g (declared result type): each function's `type_def` is evaluated by abstract interpretation "
        "of its MIR (P-ABS) with every argument at its declared parameter kind; the resulting kind set must contain every Value variant P-RET finds "
        "resolve can produce (objects/arrays as one kind each); in addition, for an argument that resolve (or the helper it is "
        "handed to) matches by variant, the comparison is made per variant: the variants produced when the argument is an X (P-VAR over the matching body) "
        "must be inside type_def evaluated with that argument typed exactly X. R02g/R02h (shared with C02): a coercion narrower than the declared parameter kind, or a message error reachable "
        "while an argument has kind X, requires the type_def evaluated for that argument type to be fallible. R03h (wrong-typed run-time arguments): the value of a parameter whose declared kind is "
        "restricted never reaches a kind-agnostic conversion (Value::to_string_lossy, coerce_to_bytes, Display) — in resolve or in a stdlib helper it is handed "
        "to — on a path without a dominating kind check (try_*/as_*/match on the variant). Undecided: element kinds of returned collections, the "
        "argument-dependent refinement in type_def, semantic correctness.")
    M = sr.function_model(chk.facts)
    sr.rule_keyword_agreement(chk, "R03a", M)
    sr.rule_coercion_unwrapped(chk, "R03d", M)
    sr.rule_progressive_type_check(chk, "R03f")
    rule_return_kinds(chk, "R03c", M)
    sr.rule_restricted_args_checked(chk, "R03h", M)
    rule_type_def_kinds(chk, "R03g", M)
    rule_type_def_per_variant(chk, "R03g", M)
    # "a call the compiler types as infallible never returns an error" is C03's clause as much as C02's: the two per-function rules are shared
    import p_c02
    p_c02.rule_r02g(chk, M)
    p_c02.rule_r02h(chk, M)


VARIANT_BIT = {"Bytes": 1 << 1, "Integer": 1 << 2, "Float": 1 << 3, "Boolean": 1 << 4, "Object": 1 << 5, "Array": 1 << 6, "Timestamp": 1 << 7,
               "Regex": 1 << 8, "Null": 1 << 9}
# one line of reason per exception (function identifier -> variant tolerated although return_kind() does not list it)
RET_EXEMPT = {}


def rule_return_kinds(chk, rid, M):
    import fmap
    import retkind
    facts = chk.facts
    chk.rule(rid, "Value variants produced by resolve are inside Function::return_kind()", floor=150)
    R = retkind.RetKinds(facts)
    n_known = 0
    for f in M.functions.values():
        ident = f["identifier"]
        rkn = "<%s as compiler::function::Function>::return_kind" % f["self"]
        bits = None
        if facts.has(rkn):
            rb = facts.body(rkn)
            for bi, si, st in rb.iter_stmts():
                if st["d"]["l"] == 0 and not st["d"].get("p"):
                    rv = st["rv"]
                    if rv["k"] == "use":
                        bits = fmap.const_int(rb, rv["op"])
                    elif rv["k"] == "binop":
                        x, y = fmap.const_int(rb, rv["a"]), fmap.const_int(rb, rv["b"])
                        if x is not None and y is not None and rv["op"] == "BitOr":
                            bits = x | y
        roots = [r for r in (M.resolve_body(e) for e in f["exprs"]) if r]
        got = set()
        for r in roots:
            got |= R.of(r)
        known = sorted(got - {"?"})
        d = {"function": ident, "return_kind_bits": bits, "produced_variants": known, "has_unclassified_producer": "?" in got}
        if bits is None or not roots:
            chk.instance(rid, d, ok=None)
            chk.note(rid, "%s: return_kind()/resolve not readable (unarmed)" % ident)
            continue
        if known and "?" not in got:
            n_known += 1
        outside = [v for v in known if v in VARIANT_BIT and not (bits & VARIANT_BIT[v]) and (ident, v) not in RET_EXEMPT]
        chk.instance(rid, d, ok=not outside)
        for v in outside:
            chk.violation(rid, f["file"], f["self"], "`%s` returns %s outside return_kind()" % (ident, v),
                          "`%s` can return a %s value, but Function::return_kind() (the documented return kinds, bits %#x) does not list it" % (ident, v.lower(), bits),
                          detail=d)
    chk.extra["R03c_fully_classified_functions"] = n_known
    if n_known < 120:
        chk.fail_closed(rid, "only %d functions have a fully classified return value (expected >= 120): the producer classification no longer matches the code" % n_known)


KIND_OF_VARIANT = {"Bytes": "bytes", "Integer": "integer", "Float": "float", "Boolean": "boolean", "Object": "object", "Array": "array",
                   "Timestamp": "timestamp", "Regex": "regex", "Null": "null"}


def rule_type_def_kinds(chk, rid, M):
    import fmap
    import retkind
    import tinfo
    facts = chk.facts
    chk.rule(rid, "type_def (evaluated abstractly under the declared parameter kinds) contains every Value variant resolve can produce", floor=120)
    R = retkind.RetKinds(facts)
    bitname = {"BYTES": "bytes", "INTEGER": "integer", "FLOAT": "float", "BOOLEAN": "boolean", "OBJECT": "object", "ARRAY": "array",
               "TIMESTAMP": "timestamp", "REGEX": "regex", "NULL": "null"}
    evaluated = 0
    for f in M.functions.values():
        ident = f["identifier"]
        params = {p["keyword"]: p for p in (fmap.parameters_of(facts, f) or []) if p.get("keyword")}
        for e in f["exprs"]:
            name = M.method_body(e, "type_def")
            adt = facts.adts.get(e)
            rn = M.resolve_body(e)
            if not name or not adt or not rn:
                continue
            v = adt["variants"][0]
            fields, exprs = {}, {}
            for fld, ty in zip(v["fields"], v["ftys"]):
                if re.match(r"^std::boxed::Box<\(?dyn compiler::expression::Expression", ty):
                    fields[fld] = tinfo.boxed(tinfo.Expr(fld))
                elif ty.startswith("std::option::Option<std::boxed::Box<"):
                    fields[fld] = tinfo.Enum("std::option::Option", "Some", {"0": tinfo.boxed(tinfo.Expr(fld))})
                else:
                    fields[fld] = tinfo.UNK
                p = params.get(fld)
                kinds = {n for b_, n in bitname.items() if p and p.get("kind") and p["kind"] & fmap.KIND_BITS[b_]}
                exprs[fld] = tinfo.TD(kinds or set(tinfo.KINDS))
            it = tinfo.Interp(facts, exprs)
            try:
                res = it.call_body(name, [tinfo.Ref(tinfo.Enum(e, None, fields)), tinfo.Ref(tinfo.ST())])
            except tinfo.Undecided:
                continue
            if not isinstance(res, tinfo.TD):
                continue
            evaluated += 1
            got = R.of(rn)
            outside = sorted(x for x in got - {"?"} if x in KIND_OF_VARIANT and KIND_OF_VARIANT[x] not in res.kind)
            d = {"function": ident, "expression": e, "type_def_kind": sorted(res.kind), "produced_variants": sorted(got - {"?"}),
                 "has_unclassified_producer": "?" in got}
            chk.instance(rid, d, ok=not outside)
            for x in outside:
                chk.violation(rid, f["file"], e, "`%s` returns %s outside its type_def" % (ident, x),
                              "`%s`: resolve can produce a %s value, but type_def (evaluated with every argument at its declared kind) yields %s: the result "
                              "does not belong to the declared result type" % (ident, x.lower(), "|".join(sorted(res.kind)) or "never"), detail=d)
    chk.extra["R03g_type_defs_evaluated"] = evaluated


def rule_type_def_per_variant(chk, rid, M):
    """refinement of R03g: per variant of a matched argument"""
    import fmap
    import retkind
    import tinfo
    facts = chk.facts
    R = retkind.RetKinds(facts)
    bitname = {"BYTES": "bytes", "INTEGER": "integer", "FLOAT": "float", "BOOLEAN": "boolean", "OBJECT": "object", "ARRAY": "array",
               "TIMESTAMP": "timestamp", "REGEX": "regex", "NULL": "null"}
    var_of = {v: k for k, v in KIND_OF_VARIANT.items()}
    n_args = 0
    for f in M.functions.values():
        ident = f["identifier"]
        params = {p["keyword"]: p for p in (fmap.parameters_of(facts, f) or []) if p.get("keyword")}
        for e in f["exprs"]:
            name = M.method_body(e, "type_def")
            adt = facts.adts.get(e)
            rn = M.resolve_body(e)
            if not name or not adt or not rn:
                continue
            rb = facts.body(rn)
            v = adt["variants"][0]
            base_fields, base_exprs = {}, {}
            for fld, ty in zip(v["fields"], v["ftys"]):
                if re.match(r"^std::boxed::Box<\(?dyn compiler::expression::Expression", ty):
                    base_fields[fld] = tinfo.boxed(tinfo.Expr(fld))
                elif ty.startswith("std::option::Option<std::boxed::Box<"):
                    base_fields[fld] = tinfo.Enum("std::option::Option", "Some", {"0": tinfo.boxed(tinfo.Expr(fld))})
                else:
                    base_fields[fld] = tinfo.UNK
                p = params.get(fld)
                kinds = {n for b_, n in bitname.items() if p and p.get("kind") and p["kind"] & fmap.KIND_BITS[b_]}
                base_exprs[fld] = kinds or set(tinfo.KINDS)
            for fld, ty in zip(v["fields"], v["ftys"]):
                if not re.match(r"^std::boxed::Box<\(?dyn compiler::expression::Expression", ty) or len(base_exprs[fld]) < 2:
                    continue
                starts = sr.argument_value_locals(facts, rb, fld)
                if len(starts) != 1:
                    continue
                al = sr.value_aliases(rb, starts)
                # where is the value matched: here, or in a stdlib helper it is handed to
                table = None
                where = None
                if any(place["l"] in al for sbb, place, adt_, tg, other in cfgq_discr(facts, rb)):
                    vl = [x for x in al if rb.local_ty(x).endswith("value::value::Value")]
                    if vl:
                        table, where = retkind.per_variant(facts, rn, sorted(vl)[0], R), rn
                else:
                    for bb, t in rb.calls():
                        cal = rb.callee(t)
                        pos = [i for i, a in enumerate(t["args"]) if op_local(a) in al]
                        if pos and facts.has(cal) and (cal.startswith("stdlib::") or cal.startswith("<stdlib::")) and "::{closure" not in cal \
                                and (t.get("dty") or "").startswith("std::result::Result<value::value::Value"):
                            # the helper's own result must be what resolve returns
                            if t["dest"]["l"] == 0 or True:
                                table, where = retkind.per_variant(facts, cal, pos[0] + 1, R), cal
                            break
                if not table:
                    continue
                n_args += 1
                bad = []
                for kname in sorted(base_exprs[fld]):
                    got = table.get(var_of[kname], set()) - {"?"}
                    if not got:
                        continue
                    exprs = {k2: tinfo.TD(set(v2)) for k2, v2 in base_exprs.items()}
                    exprs[fld] = tinfo.TD({kname})
                    it = tinfo.Interp(facts, exprs)
                    try:
                        res = it.call_body(name, [tinfo.Ref(tinfo.Enum(e, None, dict(base_fields))), tinfo.Ref(tinfo.ST())])
                    except tinfo.Undecided:
                        continue
                    if not isinstance(res, tinfo.TD):
                        continue
                    outside = sorted(x for x in got if x in KIND_OF_VARIANT and KIND_OF_VARIANT[x] not in res.kind)
                    if outside:
                        bad.append((kname, outside, sorted(res.kind)))
                d = {"function": ident, "argument": fld, "matched_in": where, "per_variant_results": {k2: sorted(v2) for k2, v2 in table.items()},
                     "mismatches": bad}
                chk.instance(rid, d, ok=not bad)
                for kname, outside, tk in bad:
                    chk.violation(rid, f["file"], e, "`%s` with a %s `%s` returns %s" % (ident, kname, fld, "/".join(outside)),
                                  "`%s`: when `%s` is %s resolve can produce %s, but type_def evaluated with `%s` typed %s yields %s: the returned value is "
                                  "outside the declared result type for that argument type" % (ident, fld, kname, "/".join(x.lower() for x in outside), fld, kname,
                                                                                               "|".join(tk) or "never"), detail=d)
    chk.extra["R03g_arguments_compared_per_variant"] = n_args


def cfgq_discr(facts, b):
    import cfgq
    return cfgq.discr_switches_on(facts, b, lambda p, a: a == "value::value::Value")
