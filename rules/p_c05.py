"""C05 — stdlib calls terminate promptly (one hazard class + recursion guard)."""
import stdlibrules as sr


def run(chk):
    chk.explanation = (
        "Decides one hazard class, not termination in general: R05a — a signed run-time integer (argument, Value::Integer payload, path index) becomes an "
        "unsigned count/index/capacity only behind a dominating order test on that value (`x < 0`, range contains, TryFrom, clamp) or is bounded right "
        "after the cast. Operands that are lengths cast from unsigned types are discharged. R05b - no counted loop whose trip count is the *value* of a run-time "
        "integer: a `Range` that is iterated (`into_iter`/`Iterator::next`) in stdlib code must not take its end from `try_integer`, `unsigned_abs`/`abs` or a signed "
        "integer parameter unless a `min`/`clamp` bounds it; such a loop runs for |n| iterations (n up to 2^63) on an input of a few bytes. Undecided: loop termination in general, output growth from legitimate "
        "large counts, regex/decompression cost.")
    sr.rule_guarded_casts(chk, "R05a")
    rule_r05b(chk)


VALUE_INT = ("try_integer", "unsigned_abs", "abs", "wrapping_abs", "saturating_abs")
BOUNDERS = ("::min", "::clamp")


def rule_r05b(chk):
    from facts import flow_sources, uses_of, op_local
    facts = chk.facts
    rid = "R05b"
    chk.rule(rid, "iterated integer ranges in stdlib code are not sized by the value of a run-time integer (unless bounded by min/clamp)", floor=1)
    for n in sorted(facts.names(lambda n: n.startswith("stdlib::") or n.startswith("<stdlib::"))):
        b = facts.body(n)
        k = 0
        for bi, si, st in b.iter_stmts():
            rv = st["rv"]
            if not (rv["k"] == "agg" and "ops::Range" in str(rv.get("adt")) and rv["ops"]):
                continue
            us = uses_of(b, st["d"]["l"])
            if not any(u[0] == "call" and ("into_iter" in (b.callee(u[3]) or "") or "Iterator" in (b.callee(u[3]) or "")) for u in us):
                continue  # a slicing range, not a loop
            l = op_local(rv["ops"][-1])
            srcs = flow_sources(b, l) if l is not None else set()
            calls = [x[2] for x in srcs if x[0] == "call"]
            tails = [c.rsplit("::", 1)[-1] for c in calls]
            by_value = sorted({t for t in tails if t in VALUE_INT} | {"parameter %s: %s" % (b.local_name(x[1]) or x[1], b.local_ty(x[1])) for x in srcs if x[0] == "arg" and b.local_ty(x[1]) in ("i64", "isize", "i32")})
            bounded = any(c.endswith(bd) for c in calls for bd in BOUNDERS)
            ok = not by_value or bounded
            d = {"function": n, "line": st.get("ln"), "end_derives_from": tails[:6], "value_sources": by_value, "bounded_by_min_or_clamp": bounded}
            chk.instance(rid, d, ok=ok)
            if not ok:
                chk.violation(rid, b.file, n, "loop count taken from the value of a run-time integer (%s) #%d" % (", ".join(by_value), k),
                              "%s:%s iterates a range whose end derives from %s with no min/clamp bound: the call runs for as many iterations as the integer's value "
                              "(up to 2^63), not in time proportional to the size of its inputs" % (b.file, st.get("ln"), ", ".join(by_value)), detail=d)
                k += 1
