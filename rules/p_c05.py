"""C05 — stdlib calls terminate promptly (one hazard class + recursion guard)."""
import stdlibrules as sr


def run(chk):
    chk.explanation = (
        "Decides one hazard class, not termination in general: R05a — a signed run-time integer (argument, Value::Integer payload, path index) becomes an "
        "unsigned count/index/capacity only behind a dominating order test on that value (`x < 0`, range contains, TryFrom, clamp) or is bounded right "
        "after the cast. Operands that are lengths cast from unsigned types are discharged. Undecided: loop termination, output growth from legitimate "
        "large counts, regex/decompression cost.")
    sr.rule_guarded_casts(chk, "R05a")
