"""C16 — reported target queries and assignments are complete (recording discipline in the compiler)."""
from facts import op_local, op_place, flow_sources, proj_fields
import cfgq
import targetsites as ts

COMPILE_QUERY = "compiler::compiler::Compiler::<'a>::compile_query"
COMPILE_ASSIGN = "compiler::compiler::Compiler::<'a>::compile_assignment"
COMPILE_FNCALL = "compiler::compiler::Compiler::<'a>::compile_function_call"
COMPILER_COMPILE = "compiler::compiler::Compiler::<'a>::compile"
QUERY_NEW = "compiler::expression::query::Query::new"
QUERY_EXT = "compiler::expression::query::Query::external_path"
ASSIGN_NEW = "compiler::expression::assignment::Assignment::new"
ASSIGN_TARGETS = "compiler::expression::assignment::Assignment::targets"
QTARGET = "compiler::expression::query::Target"
ATARGET = "compiler::expression::assignment::Target"
OTP = "path::owned::OwnedTargetPath"


def run(chk):
    facts = chk.facts
    chk.explanation = (
        "Decides the recording discipline behind ProgramInfo.target_queries/target_assignments, not coverage semantics of paths. "
        "R16a: Query::new has exactly one non-test caller (Compiler::compile_query) and on the edge where the query target is External the path "
        "{prefix, path} is pushed to external_queries before Query::new. R16b: after Assignment::new succeeds every exit passes the loop over "
        "assignment.targets() that pushes each Target::External payload to external_assignments. R16c: every OwnedTargetPath handed to a `dyn Target` "
        "method derives from Query::external_path, an assignment Target::External payload or a root constructor. R16d: the `get` special case pushes "
        "the event root; ProgramInfo is filled from exactly those two vectors. Undecided: ancestor/descendant coverage, dynamic-path functions.")
    chk.assumptions += ["paths reach the runtime target only through the 6 `dyn Target` call sites (enumerated by R16c on every run)"]

    # ---- R16a
    rid = "R16a"
    chk.rule(rid, "Query::new only from compile_query; External target => push(external_queries) before Query::new", floor=3)
    callers = sorted(set(c.split("::{closure")[0] for c in facts.callers(QUERY_NEW)))
    d = {"callee": QUERY_NEW, "callers": callers}
    if callers == [COMPILE_QUERY]:
        chk.instance(rid, d, ok=True)
    else:
        chk.instance(rid, d, ok=False)
        for c in callers:
            if c != COMPILE_QUERY:
                cb = facts.body(c)
                chk.violation(rid, cb.file, c, "Query::new call", "a Query is constructed outside Compiler::compile_query, so its external path is "
                              "never recorded in target_queries", detail=d, loc="%s:%d" % (cb.file, cb.line))
    b = chk.anchor(COMPILE_QUERY, rid)
    if b is not None:
        qn = cfgq.calls_to(b, lambda c: c == QUERY_NEW)
        pushes = cfgq.push_sites(b, "external_queries")
        sw = list(cfgq.discr_switches_on(facts, b, lambda p, adt: adt == QTARGET))
        d = {"fn": COMPILE_QUERY, "query_new_calls": len(qn), "pushes": len(pushes), "target_tests": len(sw)}
        if not qn or not sw:
            chk.instance(rid, d, ok=None)
            chk.fail_closed(rid, "compile_query: Query::new call or discriminant test on query::Target not found")
        else:
            qbb = qn[0][0]
            ok = True
            for sbb, place, adt, tg, other in sw:
                ext = tg.get("External")
                if ext is None:
                    # External falls into otherwise: then pushes must be on all paths
                    ext = other
                if cfgq.reaches(b, [ext], [qbb], avoid=[p[0] for p in pushes]):
                    ok = False
            chk.instance(rid, d, ok=ok)
            if not ok:
                chk.violation(rid, b.file, COMPILE_QUERY, "External edge reaches Query::new without push(external_queries)",
                              "an external query can be compiled without being recorded in ProgramInfo.target_queries", detail=d,
                              loc="%s:%s" % (b.file, qn[0][1]["ln"]))
            # the pushed path is {prefix: payload of External, path: clone of the path handed to Query::new}
            okp = False
            for pbb, pt in pushes:
                src = flow_sources(b, op_local(pt["args"][1]))
                aggs = [s for s in src if s[0] == "agg" and s[2] == OTP]
                q_path_src = {s for s in flow_sources(b, op_local(qn[0][1]["args"][1])) if s[0] == "call"}
                p_src = {s for s in src if s[0] == "call"}
                if aggs and (q_path_src & p_src):
                    okp = True
            d2 = {"fn": COMPILE_QUERY, "pushed_path_shares_source_with_query_path": okp}
            chk.instance(rid, d2, ok=okp)
            if not okp:
                chk.violation(rid, b.file, COMPILE_QUERY, "pushed path differs from query path",
                              "the OwnedTargetPath pushed to external_queries is not built from the path given to Query::new", detail=d2)

    # ---- R16b
    rid = "R16b"
    chk.rule(rid, "compile_assignment: Assignment::new Ok => loop over targets() pushes every Target::External payload to external_assignments", floor=2)
    b = chk.anchor(COMPILE_ASSIGN, rid)
    if b is not None:
        an = cfgq.calls_to(b, lambda c: c == ASSIGN_NEW)
        tg_calls = cfgq.calls_to(b, lambda c: c == ASSIGN_TARGETS)
        pushes = cfgq.push_sites(b, "external_assignments")
        d = {"fn": COMPILE_ASSIGN, "assignment_new": len(an), "targets_calls": len(tg_calls), "pushes": len(pushes)}
        if not an or not tg_calls or not pushes:
            chk.instance(rid, d, ok=False)
            chk.violation(rid, b.file, COMPILE_ASSIGN, "external_assignments recording missing",
                          "compile_assignment no longer records assignment targets (targets() loop or push missing)", detail=d)
        else:
            # all paths from Assignment::new that construct Some(assignment) pass through targets()
            some_blocks = [bi for bi, si, s in cfgq.agg_sites(b, "std::option::Option", "Some") if s["d"]["l"] == 0]
            tbb = tg_calls[0][0]
            ok = bool(some_blocks) and not cfgq.reaches(b, b.succ(an[0][0]), some_blocks, avoid=[tbb])
            chk.instance(rid, d, ok=ok)
            if not ok:
                chk.violation(rid, b.file, COMPILE_ASSIGN, "Some(assignment) reachable without targets() loop",
                              "an assignment can be compiled without its external targets being recorded", detail=d)
            # in the loop: External edge leads to push, payload flows into push
            sw = list(cfgq.discr_switches_on(facts, b, lambda p, adt: adt == ATARGET))
            ok2 = False
            for sbb, place, adt, tgts, other in sw:
                ext = tgts.get("External")
                if ext is None:
                    continue
                r = b.reachable_from_edges([ext], avoid=[sbb])
                for pbb, pt in pushes:
                    if pbb in r:
                        # payload
                        srcl = op_local(pt["args"][1])
                        if place["l"] in cfgq.ref_chain(b, srcl):
                            ok2 = True
            d2 = {"fn": COMPILE_ASSIGN, "external_payload_pushed": ok2, "target_tests": len(sw)}
            chk.instance(rid, d2, ok=ok2)
            if not ok2:
                chk.violation(rid, b.file, COMPILE_ASSIGN, "External payload not pushed",
                              "the loop over assignment targets does not push the Target::External payload to external_assignments", detail=d2)

    # ---- R16c
    rid = "R16c"
    chk.rule(rid, "every OwnedTargetPath given to a `dyn Target` method derives from a reported source", floor=6)
    ok_sources = (QUERY_EXT, "path::owned::OwnedTargetPath::event_root", "path::owned::OwnedTargetPath::root")
    for b, bb, t, method in ts.dyn_target_sites(facts):
        pl = op_local(t["args"][1])
        src = flow_sources(b, pl) if pl is not None else set()
        calls = sorted({s[2] for s in src if s[0] in ("call", "via")})
        why = None
        for c in calls:
            if c in ok_sources:
                why = c
        if why is None and b.name == "compiler::expression::assignment::Target::insert":
            # the path is the payload of self's External variant
            r = cfgq.ref_root(b, pl)
            if r and r[0] == 1:
                why = "payload of assignment::Target::External (self)"
        if why is None and b.impl_self == "compiler::expression::query::Query":
            aggs = [s for s in src if s[0] == "agg" and s[2] == OTP]
            if aggs and ("arg", 1) in src:
                why = "OwnedTargetPath{prefix, path} built from the Query itself (same fields compile_query recorded)"
        d = {"fn": b.name, "at": "%s:%s" % (b.file, t["ln"]), "method": method, "path_source": why or calls[:4]}
        if why:
            chk.instance(rid, d, ok=True)
        else:
            chk.instance(rid, d, ok=False)
            chk.violation(rid, b.file, b.name, "%s path of unreported origin" % method,
                          "the path handed to `dyn Target::%s` does not derive from a Query's external path, an assignment target or a root "
                          "constructor, so ProgramInfo cannot cover it" % method, detail=d, loc=d["at"])
    # Query::external_path builds {prefix of self.target, clone of self.path}
    qb = chk.anchor(QUERY_EXT, rid)
    if qb is not None:
        aggs = cfgq.agg_sites(qb, OTP)
        ok = False
        for bi, si, s in aggs:
            srcs = set()
            for op in s["rv"]["ops"]:
                l = op_local(op)
                if l is not None:
                    srcs |= flow_sources(qb, l)
            if ("arg", 1) in srcs:
                ok = True
        d = {"fn": QUERY_EXT, "builds_from_self": ok}
        chk.instance(rid, d, ok=ok)
        if not ok:
            chk.violation(rid, qb.file, QUERY_EXT, "external_path not built from self", "Query::external_path no longer derives the path from the query itself", detail=d)

    # ---- R16d
    rid = "R16d"
    chk.rule(rid, "`get` pushes the event root; ProgramInfo.target_queries/assignments come from the two recording vectors", floor=2)
    b = chk.anchor(COMPILE_FNCALL, rid)
    if b is not None:
        pushes = cfgq.push_sites(b, "external_queries")
        ok = False
        for pbb, pt in pushes:
            src = flow_sources(b, op_local(pt["args"][1]))
            if any(s[0] in ("call", "via") and s[2] == "path::owned::OwnedTargetPath::event_root" for s in src):
                # guarded by a comparison with the constant "get" that dominates the push
                for bb, t in b.calls():
                    if b.callee(t).endswith("::eq") and b.dominates(bb, pbb):
                        for a in t["args"]:
                            if a.get("str") == "get":
                                ok = True
                            l = op_local(a)
                            if l is not None and "get" in cfgq.derived_const_strs(facts, b, l):
                                ok = True
        d = {"fn": COMPILE_FNCALL, "get_pushes_event_root": ok, "pushes": len(pushes)}
        chk.instance(rid, d, ok=ok)
        if not ok:
            chk.violation(rid, b.file, COMPILE_FNCALL, "`get` root push missing",
                          "calls of `get` no longer record the event root in target_queries", detail=d)
    b = chk.anchor(COMPILER_COMPILE, rid)
    if b is not None:
        fam = [b] + [facts.body(n) for n in facts.closures_of(COMPILER_COMPILE)]
        found = {}
        for fb in fam:
            for bi, si, s in cfgq.agg_sites(fb, "compiler::program::ProgramInfo"):
                fn = s["rv"].get("fnames", [])
                for name, op in zip(fn, s["rv"]["ops"]):
                    if name in ("target_queries", "target_assignments"):
                        l = op_local(op)
                        r = cfgq.ref_root(fb, l) if l is not None else None
                        found[name] = r[1] if r else None
        ok = found.get("target_queries", [None])[-1:] == ["external_queries"] and found.get("target_assignments", [None])[-1:] == ["external_assignments"]
        d = {"fn": COMPILER_COMPILE, "ProgramInfo_fields_from": found}
        chk.instance(rid, d, ok=ok)
        if not ok:
            chk.violation(rid, b.file, COMPILER_COMPILE, "ProgramInfo not filled from recording vectors",
                          "ProgramInfo.target_queries/target_assignments are not taken from Compiler.external_queries/external_assignments", detail=d)
