"""Rules over the ~200 stdlib functions shared by C02/C03/C04/C05 (F-MAP based)."""
import re
from facts import op_local, op_place, flow_sources, uses_of
import fmap
import cfgq

ARG_GET = re.compile(r"^compiler::function::ArgumentList::(required|optional)(_\w+)?$")
COERCE = re.compile(r"(compiler::value::convert::VrlValueConvert>::try_\w+$|compiler::value::convert::VrlValueConvert::try_\w+$|"
                    r"value::value::Value::as_\w+$|<impl value::value::Value>::as_\w+$|<impl value::value::Value>::try_\w+$)")
PANICKY = re.compile(r"^std::(result::Result::<T, E>|option::Option::<T>)::(unwrap|expect|unwrap_unchecked|unwrap_err|expect_err)$")


COERCE_VARIANT = {"as_str": "Bytes", "as_bytes": "Bytes", "try_bytes": "Bytes", "try_bytes_utf8_lossy": "Bytes", "as_integer": "Integer",
                  "try_integer": "Integer", "as_float": "Float", "try_float": "Float", "as_boolean": "Boolean", "try_boolean": "Boolean",
                  "as_object": "Object", "try_object": "Object", "as_array": "Array", "try_array": "Array", "as_timestamp": "Timestamp",
                  "try_timestamp": "Timestamp", "as_regex": "Regex", "try_regex": "Regex", "as_object_mut": "Object", "as_array_mut": "Array"}
# (was: filter's `as_boolean().expect(..)` on the closure result, exempted because the closure's output kind is checked at compile time. That
# reasoning was wrong — `filter(..) -> |_i, v| { is_string({ return 5 }) }` makes the closure yield an integer and panicked — so the exemption
# is gone and filter was repaired to return an error.)
COERCE_EXEMPT = {}


def coerced_variant_known(facts, b, cterm, cbb):
    """is the coercion applied to a value whose variant P-VAR proves to be the accepted one at that call?"""
    from varflow import VarFlow, MOVED
    want = COERCE_VARIANT.get(b.callee(cterm).rsplit("::", 1)[1])
    if want is None or not cterm["args"]:
        return False
    l = op_local(cterm["args"][0])
    if l is None:
        return False
    vf = VarFlow(facts, b, extra_locals=[l])
    p = op_place(cterm["args"][0])
    # the coerced value: the argument itself, or what it references
    keys = [vf.key(p), vf.key({"l": p["l"], "p": ["*"] + list(p.get("p", []))})]
    ok = []

    def on_term(bb, t, st):
        if bb == cbb:
            vs = None
            for k in keys:
                if st.get(k) is not None:
                    vs = set(st[k]) - {MOVED}
            ok.append(vs is not None and vs == {want})
    vf.run(on_term=on_term)
    return bool(ok) and all(ok)


def function_model(facts):
    M = fmap.FMap(facts)
    return M


def keywords_used(facts, f):
    """[(kind 'required'|'optional', keyword, body, term)] for every ArgumentList getter with a constant keyword in compile (+ local helpers)"""
    out = []
    seen, ext, par = facts.reach([f["compile"]], stop=lambda c: fmap.is_child_eval(c) or c.startswith("compiler::"))
    for n in sorted(seen):
        b = facts.body(n)
        for bb, t in b.calls():
            m = ARG_GET.match(b.callee(t))
            if not m:
                continue
            if m.group(2) in ("_closure",):
                continue
            kw = None
            if len(t["args"]) > 1:
                kw = t["args"][1].get("str")
                if kw is None:
                    l = op_local(t["args"][1])
                    if l is not None:
                        strs = cfgq.derived_const_strs(facts, b, l)
                        kw = strs[0] if len(strs) == 1 else None
            out.append((m.group(1), kw, b, t))
    return out


def rule_keyword_agreement(chk, rid, M=None):
    facts = chk.facts
    M = M or function_model(facts)
    chk.rule(rid, "every arguments.required*/optional*(\"k\") in compile names a PARAMETERS entry (required getters need required: true)", floor=330)
    for f in M.functions.values():
        params = fmap.parameters_of(facts, f)
        if params is None:
            chk.fail_closed(rid, "parameters() of %s not readable" % f["self"])
            continue
        declared = {}
        for p in params:
            if p["keyword"] is not None:
                declared.setdefault(p["keyword"], p)
        used = keywords_used(facts, f)
        consumed = set()
        for kind, kw, b, t in used:
            d = {"function": f["identifier"], "getter": b.callee(t).rsplit("::", 1)[1], "keyword": kw, "at": "%s:%s" % (b.file, t["ln"]),
                 "declared": kw in declared, "declared_required": declared.get(kw, {}).get("required")}
            if kw is None:
                chk.instance(rid, d, ok=None)
                chk.note(rid, "non-constant keyword in %s at %s" % (f["identifier"], d["at"]))
                continue
            consumed.add(kw)
            if kw not in declared:
                chk.instance(rid, d, ok=False)
                chk.violation(rid, b.file, f["self"], "keyword `%s` not declared" % kw,
                              "`%s` asks for argument `%s` that its PARAMETERS do not declare: a call can never supply it (required getters panic with "
                              "'invalid function signature')" % (f["identifier"], kw), detail=d, loc=d["at"])
            elif kind == "required" and declared[kw]["required"] is False and not declared[kw].get("default"):
                chk.instance(rid, d, ok=False)
                chk.violation(rid, b.file, f["self"], "optional parameter `%s` read with a required getter" % kw,
                              "`%s` declares `%s` optional (no default) but compile() reads it with a required getter: omitting it panics the compiler"
                              % (f["identifier"], kw), detail=d, loc=d["at"])
            else:
                chk.instance(rid, d, ok=True)
        unused = sorted(set(declared) - consumed)
        if unused:
            chk.note(rid, "declared but never read (unarmed): %s %s" % (f["identifier"], unused))


def resolve_reach(facts, M, f):
    roots = [r for r in (M.resolve_body(e) for e in f["exprs"]) if r]
    seen, ext, par = facts.reach(roots, stop=lambda c: fmap.is_child_eval(c))
    return roots, seen, par


def rule_coercion_unwrapped(chk, rid, M=None):
    """R03d/R04a: a coercion result on a run-time value is never consumed by unwrap/expect in resolve-reachable code"""
    facts = chk.facts
    M = M or function_model(facts)
    chk.rule(rid, "in resolve-reachable stdlib code no VrlValueConvert::try_* / Value::as_* result is consumed by unwrap/expect", floor=150)
    reported = set()
    for f in M.functions.values():
        roots, seen, par = resolve_reach(facts, M, f)
        n_sites = 0
        for n in sorted(seen):
            if not (n.startswith("stdlib::") or n.startswith("<stdlib::")):
                continue
            b = facts.body(n)
            for bb, t in b.calls():
                cal = b.callee(t)
                if not PANICKY.match(cal):
                    continue
                l = op_local(t["args"][0])
                if l is None:
                    continue
                # the receiver must be the coercion's own result (moves/refs only, no intermediate calls)
                last = cfgq.ref_chain(b, l)[-1]
                ds = b.defs().get(last, [])
                co = [("call", x[1], b.callee(x[3])) for x in ds if x[0] == "call" and COERCE.search(b.callee(x[3]))]
                if not co:
                    continue
                cterm = b.term(co[0][1])
                if coerced_variant_known(facts, b, cterm, co[0][1]):
                    continue
                if (n.split("::{closure")[0], co[0][2].rsplit("::", 1)[1]) in COERCE_EXEMPT:
                    chk.note(rid, "exempt: %s %s — %s" % (n, co[0][2].rsplit("::", 1)[1], COERCE_EXEMPT[(n.split("::{closure")[0], co[0][2].rsplit("::", 1)[1])]))
                    continue
                n_sites += 1
                key = (n, t["ln"])
                if key in reported:
                    continue
                reported.add(key)
                d = {"function": f["identifier"], "in": n, "at": "%s:%s" % (b.file, t["ln"]), "coercion": co[0][2].rsplit("::", 1)[1],
                     "consumer": cal.rsplit("::", 1)[1], "reached_via": facts.path_to(par, n)[-3:]}
                chk.instance(rid, d, ok=False)
                chk.violation(rid, b.file, n, "%s().%s()" % (d["coercion"], d["consumer"]),
                              "`%s`: the result of %s on a run-time value is consumed by %s — with a runtime-typed argument of the wrong kind "
                              "(`%s!(.x)`) the host panics instead of getting an error" % (f["identifier"], d["coercion"], d["consumer"], f["identifier"]),
                              detail=d, loc=d["at"])
        chk.instance(rid, {"function": f["identifier"], "bodies": len(seen), "panicky_coercion_sites": n_sites}, ok=(n_sites == 0) or None) if n_sites == 0 else None


# ---------------------------------------------------------------------------------------------
# R05a / R04f: sign-losing or narrowing casts of run-time integers must be guarded by an order test

SIGNED = {"i64", "isize", "i32", "i16", "i8", "i128"}
UNSIGNED = {"u64", "usize", "u32", "u16", "u8", "u128"}
BITS = {"i64": 64, "isize": 64, "i32": 32, "i16": 16, "i8": 8, "i128": 128, "u64": 64, "usize": 64, "u32": 32, "u16": 16, "u8": 8, "u128": 128}
ORDER_OPS = {"Lt", "Le", "Gt", "Ge"}
CAST_SCOPE = ("stdlib::", "<stdlib::", "<value::value::Value as compiler::value", "compiler::value::", "value::value::crud", "<std::vec::Vec<value::value::Value> as value::value::crud",
              "value::kind::crud", "value::kind::collection")
CAST_EXEMPT = {
    # (function, line-independent description) -> reason
    "stdlib::uuid_v7::uuid_v7": "timestamp seconds/nanoseconds of a chrono DateTime (timestamp() since 1970, subsec nanos < 2e9); not an argument-controlled count",
}


def alias_set(b, l):
    """locals holding the same integer value as l (copies/moves both directions, derefs of refs to it,
    and separate copies of one and the same projected place such as a match binding and its guard binding)"""
    from facts import proj_str
    s = {l}
    by_place = {}
    for bi, si, st in b.iter_stmts():
        rv = st["rv"]
        if rv["k"] == "use" and not st["d"].get("p"):
            p = op_place(rv["op"])
            if p is not None and p.get("p") and not all(e == "*" for e in p["p"]):
                by_place.setdefault(proj_str(p), set()).add(st["d"]["l"])
    # `_r = &P` followed by `_x = copy (*_r)` is another copy of P
    refs = {}
    for bi, si, st in b.iter_stmts():
        rv = st["rv"]
        if rv["k"] == "ref" and not st["d"].get("p") and rv["p"].get("p") and not all(e == "*" for e in rv["p"]["p"]):
            refs[st["d"]["l"]] = proj_str(rv["p"])
    for bi, si, st in b.iter_stmts():
        rv = st["rv"]
        if rv["k"] == "use" and not st["d"].get("p"):
            p = op_place(rv["op"])
            if p is not None and p.get("p") == ["*"] and p["l"] in refs:
                by_place.setdefault(refs[p["l"]], set()).add(st["d"]["l"])
    changed = True
    while changed:
        changed = False
        for grp in by_place.values():
            if grp & s and not grp <= s:
                s |= grp
                changed = True
        for bi, si, st in b.iter_stmts():
            rv = st["rv"]
            d = st["d"]
            if d.get("p"):
                continue
            src = None
            if rv["k"] == "use":
                src = op_place(rv["op"])
            elif rv["k"] == "ref":
                src = rv["p"]
            if src is None:
                continue
            plain = all(e == "*" for e in src.get("p", []))
            if not plain:
                continue
            if src["l"] in s and d["l"] not in s:
                s.add(d["l"]); changed = True
            elif d["l"] in s and src["l"] not in s:
                s.add(src["l"]); changed = True
    return s


def mentions(b, op, aliases, depth=0):
    """is the operand the value itself or the value +/- a constant / cast of it?"""
    l = op_local(op)
    if l is None:
        return False
    if l in aliases:
        return True
    if depth > 3:
        return False
    ds = b.defs().get(l, [])
    if len(ds) != 1 or ds[0][0] != "stmt":
        return False
    rv = ds[0][3]["rv"]
    if rv["k"] in ("use", "cast"):
        p = op_place(rv["op"])
        if p is not None and p.get("p"):      # field of an overflow-check tuple
            return mentions(b, {"k": "copy", "p": {"l": p["l"]}}, aliases, depth + 1)
        return mentions(b, rv["op"], aliases, depth + 1)
    if rv["k"] == "binop" and rv["op"] in ("Add", "Sub", "AddWithOverflow", "SubWithOverflow"):
        a_c, b_c = rv["a"].get("k") == "const", rv["b"].get("k") == "const"
        if a_c != b_c:
            return mentions(b, rv["b"] if a_c else rv["a"], aliases, depth + 1)
    return False


def order_guards(b, aliases):
    """blocks that end in a branch on an order comparison / range-contains / TryFrom involving the value"""
    out = []
    # values computed from the operand by sign-insensitive helpers count as the operand for guard purposes
    aliases = set(aliases)
    for bb, t in b.calls():
        if re.search(r"::(unsigned_abs|abs|wrapping_abs)$", b.callee(t)) and any(op_local(a) in aliases for a in t["args"]):
            aliases |= alias_set(b, t["dest"]["l"])
    for bi, si, st in b.iter_stmts():
        rv = st["rv"]
        if rv["k"] == "binop" and rv["op"] in ORDER_OPS and rv["tya"] in SIGNED | UNSIGNED:
            if mentions(b, rv["a"], aliases) or mentions(b, rv["b"], aliases):
                out.append((bi, "comparison %s at line %s" % (rv["op"], st.get("ln"))))
    for bb, t in b.calls():
        cal = b.callee(t)
        if re.search(r"(RangeInclusive|Range|RangeFrom|RangeTo|RangeToInclusive)<.*>::contains$|::contains$", cal) and "ops::Range" in (t.get("rfn_full") or cal):
            if any(op_local(a) in aliases for a in t["args"]):
                out.append((bb, "range contains() at line %s" % t["ln"]))
        if re.search(r"TryFrom<.*>>::try_from$|TryInto<.*>>::try_into$|::clamp$|::max$|::min$|::checked_\w+$|::rem_euclid$", cal):
            if any(op_local(a) in aliases for a in t["args"]):
                out.append((bb, "%s at line %s" % (cal.rsplit("::", 1)[1], t["ln"])))
        if re.search(r"cmp::(Ord|PartialOrd)(<.*>)?>::(cmp|partial_cmp)$", cal) or re.search(r"cmp::impls::<impl (std|core)::cmp::(Ord|PartialOrd)(<.*>)? for [iu](8|16|32|64|128|size)>::(cmp|partial_cmp)$", cal):
            if any(op_local(a) in aliases for a in t["args"]):
                out.append((bb, "three-way comparison %s() at line %s" % (cal.rsplit("::", 1)[1], t["ln"])))
    # integer range patterns lower to comparisons as well; discriminant-style switches on the value itself only test equality: not a guard
    return out


def rule_guarded_casts(chk, rid):
    facts = chk.facts
    chk.rule(rid, "signed->unsigned / narrowing casts of run-time integers are dominated by an order test on the value (or bounded after the cast)", floor=30)
    for name in facts.grep('"ck":"IntToInt"'):
        if not name.startswith(CAST_SCOPE):
            continue
        b = facts.body(name)
        if b.kind in ("const", "static", "promoted") or "/build/" in b.file:
            continue
        ordinal = 0
        for bi, si, st in b.iter_stmts():
            rv = st["rv"]
            if not (rv["k"] == "cast" and rv["ck"] == "IntToInt" and rv["from"] in SIGNED and rv["to"] in UNSIGNED):
                continue
            if rv["op"].get("k") == "const":
                continue
            l = op_local(rv["op"])
            if l is not None and any(kind == "stmt" and dx["rv"]["k"] == "discr" for x in cfgq.ref_chain(b, l) for kind, dbb, dsi, dx in b.defs().get(x, [])):
                continue   # `Enum::Variant as usize`
            ordinal += 1
            d = {"fn": name, "at": "%s:%s" % (b.file, st.get("ln")), "cast": "%s->%s" % (rv["from"], rv["to"])}
            # provably non-negative sources: unsigned->signed casts of lengths, comparisons results
            src = flow_sources(b, l, pass_through=lambda c: False) if l is not None else set()
            chain = cfgq.ref_chain(b, l) if l is not None else []
            nonneg = False
            for x in chain:
                for kind, dbb, dsi, dx in b.defs().get(x, []):
                    if kind == "stmt" and dx["rv"]["k"] == "cast" and dx["rv"]["from"] in UNSIGNED:
                        nonneg = True
            if nonneg:
                d["discharged_by"] = "operand is an unsigned value cast to signed (a length)"
                chk.instance(rid, d, ok=True)
                continue
            clamp = None
            for x in chain:
                for kind, dbb, dsi, dx in b.defs().get(x, []):
                    if kind == "call" and re.search(r"::(max|clamp|rem_euclid|unsigned_abs|abs|wrapping_abs|saturating_sub|checked_\w+)$", b.callee(dx)):
                        clamp = b.callee(dx).rsplit("::", 1)[1]
            if clamp:
                d["discharged_by"] = "operand is the result of %s()" % clamp
                chk.instance(rid, d, ok=True)
                continue
            base = name.split("::{closure")[0]
            if base in CAST_EXEMPT:
                d["exempt"] = CAST_EXEMPT[base]
                chk.instance(rid, d, ok=True)
                continue
            aliases = alias_set(b, l) if l is not None else set()
            # arithmetic on a guarded value (e.g. `end + len`, `index + len`) keeps the guard relevant: include operands of the defining binop
            for x in list(aliases):
                for kind, dbb, dsi, dx in b.defs().get(x, []):
                    if kind == "stmt" and dx["rv"]["k"] == "binop" and dx["rv"]["op"] in ("Add", "Sub", "AddWithOverflow", "SubWithOverflow"):
                        for key in ("a", "b"):
                            ol = op_local(dx["rv"][key])
                            if ol is not None:
                                aliases |= alias_set(b, ol)
                    if kind == "stmt" and dx["rv"]["k"] == "use":
                        p = op_place(dx["rv"]["op"])
                        if p is not None and p.get("p") and p["l"] not in aliases:
                            # field of an overflow tuple `(_x.0)`
                            aliases |= alias_set(b, p["l"])
            for x in list(aliases):
                for kind, dbb, dsi, dx in b.defs().get(x, []):
                    if kind == "stmt" and dx["rv"]["k"] == "binop" and dx["rv"]["op"] in ("Add", "Sub", "AddWithOverflow", "SubWithOverflow"):
                        for key in ("a", "b"):
                            ol = op_local(dx["rv"][key])
                            if ol is not None:
                                aliases |= alias_set(b, ol)
            guards = [(gb, why) for gb, why in order_guards(b, aliases) if gb != bi and b.dominates(gb, bi)]
            if guards:
                d["discharged_by"] = guards[0][1]
                chk.instance(rid, d, ok=True)
                continue
            # post-cast bound: the result is order-compared and every other use is dominated by that test
            res = st["d"]["l"]
            res_alias = alias_set(b, res)
            post = [(gb, why) for gb, why in order_guards(b, res_alias)]
            if post:
                gb = post[0][0]
                sw = b.term(gb)
                if sw["k"] == "switch" and len(b.succ(gb)) == 2:
                    e1, e2 = b.succ(gb)
                    use_blocks = set()
                    for x in res_alias:
                        for kind, ubb, usi, ux in uses_of(b, x):
                            if kind == "stmt" and ux["rv"]["k"] in ("use", "ref") and ux["d"]["l"] in res_alias:
                                continue
                            if ubb != gb:
                                use_blocks.add(ubb)
                    for acc, rej in ((e1, e2), (e2, e1)):
                        r_rej = b.reachable_from_edges([rej], avoid=[gb, acc])
                        if not (use_blocks & r_rej) and all(b.dominates(acc, ub) for ub in use_blocks):
                            d["discharged_by"] = "bounded after the cast (%s; the other edge never uses the value)" % post[0][1]
                            break
                    if "discharged_by" in d:
                        chk.instance(rid, d, ok=True)
                        continue
            # closure parameter of a tiny helper closure (e.g. `as_usize`): guard inside the closure already checked above;
            chk.instance(rid, d, ok=False)
            chk.violation(rid, b.file, name, "unguarded %s->%s cast #%d" % (rv["from"], rv["to"], ordinal),
                          "a run-time integer is cast %s->%s without a dominating sign/upper-bound test: a negative or huge argument becomes an enormous "
                          "count/index (hang, huge allocation or out-of-bounds panic)" % (rv["from"], rv["to"]), detail=d, loc=d["at"])


def upvar_origin(facts, b, l):
    """if local l of closure body b is (a copy of) a captured variable, return (parent body, local captured in the parent)"""
    if b.kind != "closure" or l is None:
        return None
    for x in cfgq.ref_chain(b, l):
        for kind, dbb, dsi, dx in b.defs().get(x, []):
            if kind != "stmt" or dx["rv"]["k"] not in ("use", "ref"):
                continue
            p = op_place(dx["rv"]["op"]) if dx["rv"]["k"] == "use" else dx["rv"]["p"]
            if p is None or p["l"] != 1:
                continue
            fields = [e["f"] for e in p.get("p", []) if isinstance(e, dict) and "f" in e]
            if not fields or not fields[0].isdigit():
                continue
            parent = b.name.rsplit("::{closure#", 1)[0]
            if not facts.has(parent):
                return None
            pb = facts.body(parent)
            for bi, si, st in pb.iter_stmts():
                if st["rv"]["k"] == "agg" and st["rv"].get("closure") == b.name:
                    ops = st["rv"]["ops"]
                    k = int(fields[0])
                    if k < len(ops):
                        pl = op_local(ops[k])
                        return pb, pl
    return None


def derives_from_unsigned(facts, b, l, depth=0):
    if l is None or depth > 3:
        return False
    for x in cfgq.ref_chain(b, l):
        for kind, dbb, dsi, dx in b.defs().get(x, []):
            if kind == "stmt" and dx["rv"]["k"] == "cast" and dx["rv"]["from"] in UNSIGNED:
                return True
    up = upvar_origin(facts, b, l)
    if up:
        return derives_from_unsigned(facts, up[0], up[1], depth + 1)
    # a closure parameter: every call of the closure in its parent must pass an unsigned-derived value
    if b.kind == "closure":
        chain = cfgq.ref_chain(b, l)
        params = [x for x in chain if 2 <= x <= b.argc]
        if params:
            k = params[0] - 2
            parent = b.name.rsplit("::{closure#", 1)[0]
            if facts.has(parent):
                pb = facts.body(parent)
                sites = [t for bb, t in pb.calls() if t.get("rfn") == b.name]
                if sites:
                    ok = True
                    for t in sites:
                        tl = op_local(t["args"][1]) if len(t["args"]) > 1 else None
                        found = False
                        for x in (cfgq.ref_chain(pb, tl) if tl is not None else []):
                            for kind, dbb, dsi, dx in pb.defs().get(x, []):
                                if kind == "stmt" and dx["rv"]["k"] == "agg" and dx["rv"].get("adt") == "(tuple)" and k < len(dx["rv"]["ops"]):
                                    if derives_from_unsigned(facts, pb, op_local(dx["rv"]["ops"][k]), depth + 1):
                                        found = True
                        ok = ok and found
                    return ok
    return False


def rule_negation_overflow(chk, rid):
    facts = chk.facts
    chk.rule(rid, "no overflow-capable negation/abs of a run-time signed integer (operand must be a cast length, or the site uses wrapping_/unsigned_abs)", floor=1)
    n = 0
    for name in facts.grep('"op":"Neg"'):
        b = facts.body(name)
        if b.kind in ("const", "static", "promoted") or "/build/" in b.file:
            continue
        for bi, si, st in b.iter_stmts():
            rv = st["rv"]
            if not (rv["k"] == "unop" and rv["op"] == "Neg" and rv["tya"] in SIGNED):
                continue
            if rv["a"].get("k") == "const":
                continue
            n += 1
            l = op_local(rv["a"])
            d = {"fn": name, "at": "%s:%s" % (b.file, st.get("ln")), "type": rv["tya"]}
            nonneg = derives_from_unsigned(facts, b, l)
            if nonneg:
                d["discharged_by"] = "operand is a length cast from an unsigned type"
                chk.instance(rid, d, ok=True)
            else:
                chk.instance(rid, d, ok=False)
                chk.violation(rid, b.file, name, "checked negation of %s" % rv["tya"],
                              "`-x` on a run-time %s overflows for the minimum value (panics in builds with overflow checks); use unsigned_abs/wrapping_neg "
                              "or exclude MIN first" % rv["tya"], detail=d, loc=d["at"])
    for i in facts.index:
        if "/build/" in i["file"]:
            continue
        for c in i["callees"]:
            if re.search(r"core::num::<impl i(8|16|32|64|128|size)>::(abs|pow|neg)$", c):
                n += 1
                b = facts.body(i["name"])
                d = {"fn": i["name"], "callee": c}
                chk.instance(rid, d, ok=False)
                chk.violation(rid, b.file, i["name"], "call of %s" % c.rsplit("::", 1)[1],
                              "%s panics on overflow (iN::MIN) in builds with overflow checks; use the wrapping_/checked_ variant" % c, detail=d,
                              loc="%s:%d" % (b.file, b.line))


def rule_char_count_as_byte_index(chk, rid):
    """R04g: a number of characters never indexes/slices a str (byte offsets): `&s[n..]` with n derived from Chars::count panics on a
    non-ASCII prefix ('byte index is not a char boundary')"""
    import p_c33
    facts = chk.facts
    chk.rule(rid, "no str index/slice bound is computed from a character count (Chars::count / count over an adaptor of Chars)", floor=60)
    STR_INDEX = re.compile(r"str as std::ops::Index<|impl std::ops::Index<.*> for str>::index$|core::str::<impl str>::(get|split_at|split_at_checked|get_unchecked|is_char_boundary)$|"
                           r"std::string::String as std::ops::Index<|SliceIndex<str>")
    n = 0
    for name in facts.grep("Index<", "split_at", "::get"):
        b = facts.body(name)
        if b.kind in ("const", "static", "promoted") or "/build/" in b.file or name.startswith("cli::"):
            continue
        for bb, t in b.calls():
            cal = b.callee(t)
            full = t.get("rfn_full") or t.get("fn_full") or ""
            if not (STR_INDEX.search(cal) or STR_INDEX.search(full)):
                continue
            if "str" not in full and "String" not in full:
                continue
            n += 1
            bad = None
            for a in t["args"][1:]:
                l = op_local(a)
                if l is None:
                    continue
                # range aggregates: look at their bounds; plain usize: the value itself
                exprs = []
                for x in cfgq.ref_chain(b, l):
                    for kind, dbb, dsi, dx in b.defs().get(x, []):
                        if kind == "stmt" and dx["rv"]["k"] == "agg" and "ops::Range" in (dx["rv"].get("adt") or ""):
                            exprs += [p_c33.expr_of(b, op) for op in dx["rv"]["ops"]]
                if not exprs:
                    exprs = [p_c33.expr_of(b, a)]
                for tr in exprs:
                    for e in p_c33.walk(tr):
                        if e[0] == "call" and (e[1].endswith("Iterator::count") or e[1].endswith("Iterator>::count")) and "Chars" in (e[3] or ""):
                            bad = e[3]
            d = {"fn": name, "at": "%s:%s" % (b.file, t["ln"]), "index_call": cal.rsplit("::", 2)[-2:] if "::" in cal else cal, "char_count_source": bad}
            chk.instance(rid, d, ok=not bad)
            if bad:
                chk.violation(rid, b.file, name, "str indexed with a character count",
                              "a str is sliced/indexed at an offset computed from %s: for text with a multi-byte character in the counted prefix the offset is "
                              "not a character boundary and the host panics" % bad.split(" as ")[0][:80], detail=d, loc=d["at"])
    chk.extra["str_index_sites"] = n


ZERO_INTOLERANT = re.compile(r"core::slice::<impl \[T\]>::(chunks|chunks_exact|windows|rchunks|chunks_mut|rchunks_exact|chunks_exact_mut)$|Iterator::step_by$|"
                             r"core::num::<impl [iu](8|16|32|64|128|size)>::(div_euclid|rem_euclid|div_ceil|next_multiple_of)$")


def value_roots(b, op, depth=0):
    """locals an integer operand is computed from through casts / From::from / copies"""
    l = op_local(op)
    out = set()
    if l is None or depth > 6:
        return out
    out.add(l)
    for kind, dbb, dsi, dx in b.defs().get(l, []):
        if kind == "stmt" and dx["rv"]["k"] in ("use", "cast"):
            out |= value_roots(b, dx["rv"]["op"], depth + 1)
        elif kind == "call" and re.search(r"::(from|into|try_from|try_into|unwrap|expect|unwrap_or|clone)$", b.callee(dx)) and dx["args"]:
            out |= value_roots(b, dx["args"][0], depth + 1)
    return out


def guarded_here(b, roots, site_bb):
    al = set()
    for r in roots:
        al |= alias_set(b, r)
    gs = [(gb, why) for gb, why in order_guards(b, al) if gb != site_bb and b.dominates(gb, site_bb)]
    # equality tests against a constant also exclude zero (`== 0`, `!= 0`, match on 0)
    for bi, si, st in b.iter_stmts():
        rv = st["rv"]
        if rv["k"] == "binop" and rv["op"] in ("Eq", "Ne") and (mentions(b, rv["a"], al) or mentions(b, rv["b"], al)) and bi != site_bb and b.dominates(bi, site_bb):
            gs.append((bi, "comparison %s at line %s" % (rv["op"], st.get("ln"))))
    for bi, t in b.iter_terms("switch"):
        if op_local(t["op"]) in al and bi != site_bb and b.dominates(bi, site_bb) and any(v == "0" for v, _ in t["targets"]):
            gs.append((bi, "switch on the value with a 0 arm at line %s" % t.get("ln")))
    return gs


def rule_zero_intolerant(chk, rid):
    """R04h: integer division/remainder and chunks()/windows()/step_by() never receive an unchecked run-time zero"""
    facts = chk.facts
    chk.rule(rid, "divisors, chunk/window/step sizes and checked shift amounts are constants or guarded by a comparison (here or at every caller)", floor=3)
    sites = []
    for i in facts.index:
        n = i["name"]
        if "/build/" in i["file"] or n.startswith("cli::") or n.startswith("<cli::"):
            continue
        if any(ZERO_INTOLERANT.search(c) for c in i["callees"]):
            b = facts.body(n)
            for bb, t in b.calls():
                if ZERO_INTOLERANT.search(b.callee(t)) and len(t["args"]) > 1:
                    sites.append((b, bb, t["args"][1], b.callee(t).rsplit("::", 1)[1], t["ln"]))
    for n in facts.grep("DivisionByZero", "RemainderByZero"):
        b = facts.body(n)
        if "/build/" in b.file or b.kind in ("const", "static", "promoted") or n.startswith("cli::"):
            continue
        for bb, t in b.iter_terms("assert"):
            if not (t.get("msg") or "").startswith(("DivisionByZero", "RemainderByZero")):
                continue
            # the guarded operation is the Div/Rem in the successor block
            for nb in b.succ(bb):
                for s in b.stmts(nb):
                    if s["rv"]["k"] == "binop" and s["rv"]["op"] in ("Div", "Rem") and s["rv"]["tya"] != "f64":
                        sites.append((b, bb, s["rv"]["b"], s["rv"]["op"], s.get("ln")))
    # checked shifts: the amount must be provably below the bit width (constant, masked, or compared)
    for n in facts.grep('"ovop":"Shl"', '"ovop":"Shr"'):
        b = facts.body(n)
        if "/build/" in b.file or b.kind in ("const", "static", "promoted") or n.startswith("cli::"):
            continue
        for bb, t in b.iter_terms("assert"):
            if t.get("ovop") not in ("Shl", "Shr"):
                continue
            amount = None
            for nb in [bb] + b.succ(bb):
                for s in b.stmts(nb):
                    if s["rv"]["k"] == "binop" and s["rv"]["op"] in ("Shl", "Shr", "ShlUnchecked", "ShrUnchecked"):
                        amount = s["rv"]["b"]
            if amount is not None:
                sites.append((b, bb, amount, "shift " + t["ovop"], t["ln"]))
    for b, bb, op, what, ln in sites:
        d = {"fn": b.name, "at": "%s:%s" % (b.file, ln), "operation": what}
        if op.get("k") == "const":
            ok = str(op.get("int")) not in ("0", "None")
            d["discharged_by"] = "constant %s" % op.get("int")
            chk.instance(rid, d, ok=ok)
            if not ok:
                chk.violation(rid, b.file, b.name, "%s by constant zero" % what, "%s with a zero constant" % what, detail=d, loc=d["at"])
            continue
        ol_ = op_local(op)
        if ol_ is not None:
            srcs_ = flow_sources(b, ol_, pass_through=lambda c: True)
            if not any(x[0] in ("arg", "upvar") for x in srcs_) and b.kind != "closure":
                # computed from constants and argument-less calls only (e.g. a cipher's block_size()): no input can make it zero
                d["discharged_by"] = "operand does not depend on any argument of the function (type-level / constant-derived value)"
                chk.instance(rid, d, ok=True)
                continue
        if what.startswith("shift"):
            # a comparison against an upper bound does not bound `width - x`; accept only masked amounts
            masked = False
            l = op_local(op)
            for x in (cfgq.ref_chain(b, l) if l is not None else []):
                for kind, dbb, dsi, dx in b.defs().get(x, []):
                    if kind == "stmt" and dx["rv"]["k"] == "binop" and dx["rv"]["op"] in ("BitAnd", "Rem") and \
                            (dx["rv"]["a"].get("k") == "const" or dx["rv"]["b"].get("k") == "const"):
                        masked = True
            d["discharged_by"] = "amount masked with a constant" if masked else None
            chk.instance(rid, d, ok=masked)
            if not masked:
                chk.violation(rid, b.file, b.name, "checked %s by a run-time amount" % what,
                              "`<<`/`>>` by a run-time amount that can equal the bit width overflows (panic with overflow checks, wrong mask otherwise), "
                              "e.g. a `/0` subnet; use checked_shl/checked_shr or mask the amount", detail=d, loc=d["at"])
            continue
        roots = value_roots(b, op)
        gs = guarded_here(b, roots, bb)
        if gs:
            d["discharged_by"] = gs[0][1]
            chk.instance(rid, d, ok=True)
            continue
        params = [r for r in roots if 1 <= r <= b.argc]
        ok = False
        if params:
            callers = [c for c in facts.callers(b.name) if facts.has(c)]
            ok = bool(callers)
            for c in callers:
                cb = facts.body(c)
                for cbb, ct in cb.calls():
                    if cb.callee(ct) != b.name:
                        continue
                    k = params[0] - 1
                    if k >= len(ct["args"]):
                        ok = False
                        continue
                    croots = value_roots(cb, ct["args"][k])
                    if ct["args"][k].get("k") == "const" or guarded_here(cb, croots, cbb):
                        d.setdefault("discharged_by", "guarded at caller %s" % c.rsplit("::", 1)[-1])
                    else:
                        ok = False
        chk.instance(rid, d, ok=ok)
        if not ok:
            chk.violation(rid, b.file, b.name, "%s with unchecked run-time operand" % what,
                          "`%s` receives a run-time value that is never compared against zero (here or at its callers): a zero argument panics the host "
                          "(chunks/windows/step_by) or divides by zero" % what, detail=d, loc=d["at"])


def rule_progressive_type_check(chk, rid):
    """R03f: Builder::new decides 'argument kind is fully covered by the parameter kind' on the argument's own, unmodified kind"""
    facts = chk.facts
    BUILDER_NEW = "compiler::expression::function_call::Builder::<'a>::new"
    chk.rule(rid, "Builder::new: Kind::is_superset/intersects are applied to parameter.kind() and the argument's unmodified type_def kind; "
                  "a failed superset test records the argument as needing a runtime type check", floor=2)
    b = chk.anchor(BUILDER_NEW, rid)
    if b is None:
        return
    pushes = cfgq.calls_to(b, lambda c: c.startswith("std::vec::Vec::<") and c.endswith(">::push"))
    unk_pushes = []
    for bb, t in pushes:
        l = op_local(t["args"][0])
        r = cfgq.ref_root(b, l) if l is not None else None
        nm = {b.local_name(x) for x in cfgq.ref_chain(b, l)} if l is not None else set()
        if "arguments_with_unknown_type_validity" in nm:
            unk_pushes.append(bb)
    tests = [(bb, t) for bb, t in b.calls() if re.search(r"impl value::kind::Kind>::(is_superset|intersects)$", b.callee(t))]
    n_ok = 0
    for bb, t in tests:
        which = b.callee(t).rsplit("::", 1)[1]
        arg = op_local(t["args"][1]) if len(t["args"]) > 1 else None
        recv = op_local(t["args"][0])

        def producer(l):
            if l is None:
                return None
            last = cfgq.ref_chain(b, l)[-1]
            ds = b.defs().get(last, [])
            calls = [b.callee(x[3]) for x in ds if x[0] == "call"]
            return calls[0] if calls else ("param" if 1 <= last <= b.argc else None)
        pa, pr = producer(arg), producer(recv)
        d = {"fn": BUILDER_NEW, "test": which, "at": "%s:%s" % (b.file, t["ln"]), "argument_kind_from": pa, "parameter_kind_from": pr}
        ok = bool(pa) and pa.endswith("TypeDef::kind") and bool(pr) and pr.endswith("Parameter::kind")
        if which == "is_superset":
            # Err edge must reach the push
            res = t["dest"]["l"]
            okp = False
            holders = {res}
            for kind, ubb, si, x in uses_of(b, res):
                if kind == "stmt" and x["rv"]["k"] in ("ref", "use"):
                    holders.add(x["d"]["l"])
            for h in holders:
                for kind, ubb, si, x in uses_of(b, h):
                    if kind == "call" and re.search(r"::(is_err|is_ok)$", b.callee(x)):
                        e = cfgq.bool_switch_after_call(b, ubb)
                        if not e:
                            continue
                        fail_edge, pass_edge = (e[0], e[1]) if b.callee(x).endswith("is_err") else (e[1], e[0])
                        if any(pb in b.reachable_from_edges([fail_edge], avoid=[pass_edge]) for pb in unk_pushes):
                            okp = True
            d["failed_test_records_argument"] = okp
            ok = ok and okp
        chk.instance(rid, d, ok=ok)
        if ok:
            n_ok += 1
        else:
            chk.violation(rid, b.file, BUILDER_NEW, "%s on an adjusted kind" % which,
                          "Builder::new applies %s to %s / %s instead of parameter.kind() and the argument's own type_def kind: an argument whose kind only "
                          "partly matches (e.g. `T | undefined`) is treated as fully valid and the call is typed infallible" % (which, pr, pa), detail=d, loc=d["at"])
    if not tests:
        chk.fail_closed(rid, "Builder::new: no Kind::is_superset / intersects test found")


# ---------------------------------------------------------------------------------------------
# R03h: a kind-restricted argument is never rendered by a kind-agnostic conversion before its kind was checked

AGNOSTIC = re.compile(r"value::value::\w+::<impl value::value::Value>::(to_string_lossy|coerce_to_bytes)$|"
                      r"<value::value::Value as std::fmt::Display>::fmt$|<value::value::Value as std::string::ToString>::to_string$|"
                      r"<value::value::Value as std::fmt::Debug>::fmt$")
KIND_CHECK = re.compile(r"VrlValueConvert>::try_\w+$|<impl value::value::Value>::(as_\w+|into_object|into_array|is_\w+|kind|kind_str)$|"
                        r"TryFrom<.*value::value::Value>>::try_from$|TryInto<.*>>::try_into$|<value::value::Value as std::cmp::PartialEq>::eq$")
ALL_KINDS = sum(fmap.KIND_BITS[k] for k in ("BYTES", "INTEGER", "FLOAT", "BOOLEAN", "OBJECT", "ARRAY", "TIMESTAMP", "REGEX", "NULL"))


def value_aliases(b, start):
    """locals that hold the Value in `start` or a reference to it, or the payload of a `?`/Option wrapping it (forward closure)"""
    al = set(start)
    grew = True
    while grew:
        grew = False
        for bi, si, st in b.iter_stmts():
            d = st["d"]
            if d.get("p") or d["l"] in al:
                continue
            rv = st["rv"]
            src = None
            if rv["k"] in ("use", "cast"):
                p = op_place(rv["op"])
                if p is not None and all(e == "*" or (isinstance(e, dict) and e.get("v") in ("Continue", "Some", "Ok")) or
                                         (isinstance(e, dict) and e.get("f") == "0") for e in p.get("p", [])):
                    src = p["l"]
            elif rv["k"] == "ref":
                p = rv["p"]
                if all(e == "*" for e in p.get("p", [])):
                    src = p["l"]
            if src is not None and src in al:
                al.add(d["l"]); grew = True
        for bb, t in b.calls():
            if t["dest"].get("p") or t["dest"]["l"] in al:
                continue
            cal = b.callee(t)
            if (cal.endswith("as std::ops::Try>::branch") or re.search(r"::(as_ref|as_deref|clone|borrow|deref|unwrap|expect|to_owned)$", cal)) and t["args"] \
                    and op_local(t["args"][0]) in al:
                al.add(t["dest"]["l"]); grew = True
    return al


def agnostic_sites(facts, name, params, depth=0, memo=None):
    """unguarded kind-agnostic conversions of the Value held in the given parameter locals (or value locals) of body `name`.
    Returns list of (body name, line, callee)."""
    memo = memo if memo is not None else {}
    key = (name, tuple(sorted(params)))
    if key in memo:
        return memo[key]
    memo[key] = []
    if depth > 3 or not facts.has(name):
        return []
    b = facts.body(name)
    al = value_aliases(b, params)
    checks = []
    sinks = []
    passes = []
    for bb, t in b.calls():
        cal = b.callee(t)
        pos = [i for i, a in enumerate(t["args"]) if op_local(a) in al]
        if not pos:
            continue
        if KIND_CHECK.search(cal):
            checks.append(bb)
        elif AGNOSTIC.search(cal):
            sinks.append((bb, t, cal))
        elif facts.has(cal) and (cal.startswith("stdlib::") or cal.startswith("<stdlib::") or "::{closure" in cal):
            passes.append((bb, t, cal, pos))
    for sbb, place, adt, tg, other in cfgq.discr_switches_on(facts, b, lambda p, a: a == "value::value::Value"):
        if place["l"] in al:
            checks.append(sbb)
    out = []
    for bb, t, cal in sinks:
        if not any(cb != bb and b.dominates(cb, bb) for cb in checks):
            out.append((name, t["ln"], cal.rsplit("::", 1)[-1] if "Display" not in cal else "Display::fmt"))
    for bb, t, cal, pos in passes:
        if any(cb != bb and b.dominates(cb, bb) for cb in checks):
            continue
        cb_ = facts.body(cal)
        plocals = [p + 1 for p in pos if p + 1 <= cb_.argc]
        if cb_.kind == "closure":
            continue
        out += agnostic_sites(facts, cal, plocals, depth + 1, memo)
    memo[key] = out
    return out


def rule_restricted_args_checked(chk, rid, M=None):
    facts = chk.facts
    M = M or function_model(facts)
    chk.rule(rid, "a kind-restricted argument value is never rendered by a kind-agnostic conversion (to_string_lossy, Display, coerce_to_bytes) "
                  "before its kind was checked", floor=150)
    memo = {}
    traced_total = [0]
    for f in M.functions.values():
        ident = f["identifier"]
        params = {p["keyword"]: p for p in (fmap.parameters_of(facts, f) or []) if p.get("keyword")}
        # keyword -> field of the expression struct
        field_of = {}
        for kindg, kw, cb, t in keywords_used(facts, f):
            if kw is None:
                continue
            d = t["dest"]["l"]
            fw = cfgq.copies_forward(cb, d)
            for bi, si, st in cb.iter_stmts():
                rv = st["rv"]
                if rv["k"] == "agg" and rv.get("adt") in f["exprs"]:
                    for fname, op in zip(rv.get("fnames", []), rv["ops"]):
                        if op_local(op) in fw:
                            field_of[kw] = fname
        restricted = {kw: fld for kw, fld in field_of.items() if kw in params and params[kw].get("kind") is not None
                      and (params[kw]["kind"] & ALL_KINDS) != ALL_KINDS}
        sites = []
        examined = 0
        for e in f["exprs"]:
            rn = M.resolve_body(e)
            if not rn:
                continue
            b = facts.body(rn)
            for kw, fld in restricted.items():
                # results of `self.<fld>.resolve(ctx)`
                starts = []
                for bb, t in b.calls():
                    if not b.callee(t).endswith("compiler::expression::Expression::resolve") and "Expression>::resolve" not in b.callee(t):
                        continue
                    if not t["args"]:
                        continue
                    src = flow_sources(b, op_local(t["args"][0]), pass_through=lambda c: True, field=None) if op_local(t["args"][0]) is not None else set()
                    rl = op_local(t["args"][0])
                    chain = cfgq.ref_chain(b, rl) if rl is not None else []
                    hit = False
                    for x in chain:
                        for kind2, dbb, dsi, dx in b.defs().get(x, []):
                            if kind2 == "stmt":
                                pl = dx["rv"].get("p") if dx["rv"]["k"] == "ref" else op_place(dx["rv"].get("op", {})) if dx["rv"]["k"] in ("use", "cast") else None
                                if pl and pl["l"] == 1 and fld in [e2.get("f") for e2 in pl.get("p", []) if isinstance(e2, dict)]:
                                    hit = True
                    if hit:
                        starts.append(t["dest"]["l"])
                if not starts:
                    continue
                examined += 1
                for s_ in agnostic_sites(facts, rn, starts, 0, memo):
                    sites.append((kw,) + s_)
        traced_total[0] += examined
        d = {"function": ident, "restricted_parameters": sorted(restricted), "arguments_traced": examined, "unguarded_agnostic_conversions": len(sites)}
        chk.instance(rid, d, ok=not sites)
        for n_, (kw, body, ln, what) in enumerate(sorted(set(sites))):
            bb_ = facts.body(body)
            chk.violation(rid, bb_.file, body, "`%s` argument `%s` rendered by %s without a kind check" % (ident, kw, what),
                          "`%s`: the value of parameter `%s` (declared kind is restricted) reaches %s at %s:%s on a path with no preceding kind check: "
                          "a runtime-typed argument of the wrong type (e.g. `%s!(.x)` with an integer) is silently converted instead of raising an error"
                          % (ident, kw, what, bb_.file, ln, ident), detail=d, loc="%s:%s" % (bb_.file, ln))
    chk.extra["R03h_arguments_traced"] = traced_total[0]
    if traced_total[0] < 150:
        chk.fail_closed(rid, "only %d restricted argument values could be traced from `self.<field>.resolve(ctx)` (expected >= 150): the tracing no longer "
                             "matches the code" % traced_total[0])


def argument_value_locals(facts, b, fld):
    """locals of resolve body `b` that receive the result of `self.<fld>.resolve(ctx)`"""
    starts = []
    for bb, t in b.calls():
        if not b.callee(t).endswith("compiler::expression::Expression::resolve") and "Expression>::resolve" not in b.callee(t):
            continue
        if not t["args"]:
            continue
        rl = op_local(t["args"][0])
        chain = cfgq.ref_chain(b, rl) if rl is not None else []
        hit = False
        for x in chain:
            for kind2, dbb, dsi, dx in b.defs().get(x, []):
                if kind2 == "stmt":
                    pl = dx["rv"].get("p") if dx["rv"]["k"] == "ref" else op_place(dx["rv"].get("op", {})) if dx["rv"]["k"] in ("use", "cast") else None
                    if pl and pl["l"] == 1 and fld in [e2.get("f") for e2 in pl.get("p", []) if isinstance(e2, dict)]:
                        hit = True
        if hit:
            starts.append(t["dest"]["l"])
    return starts
