"""Shared extraction for C10/C11: operations performed in the VrlValueArithmetic methods, each with the
(self variant, rhs variant) state it is reachable in and the provenance of its operands."""
import re
from facts import op_local, op_place
from varflow import VarFlow, MOVED

TRAIT = "compiler::value::arithmetic::VrlValueArithmetic"
VALUE = "value::value::Value"


def method(name):
    return "<%s as %s>::%s" % (VALUE, TRAIT, name)


def operand_origin(b, op, depth=10):
    """trace an operand back to ('self'|'rhs'|'other', variant or None, [casts])"""
    casts = []
    cur = op
    for _ in range(depth):
        if cur.get("k") == "const":
            return ("const", None, casts, cur)
        p = op_place(cur)
        if p is None:
            return ("other", None, casts, None)
        names = [(e.get("v"), e.get("f")) for e in p.get("p", []) if isinstance(e, dict)]
        # rooted at tuple local fields .0/.1 or at args
        if p.get("p"):
            fields = [e["f"] for e in p["p"] if isinstance(e, dict) and "f" in e]
            variants = [e["v"] for e in p["p"] if isinstance(e, dict) and "v" in e]
            root = p["l"]
            side = None
            if 1 <= root <= b.argc and root in (1, 2):
                side = "self" if root == 1 else "rhs"
            else:
                # tuple (self, rhs)
                ds = b.defs().get(root, [])
                if len(ds) == 1 and ds[0][0] == "stmt" and ds[0][3]["rv"]["k"] == "agg" and ds[0][3]["rv"].get("adt") == "(tuple)" and fields:
                    side = {"0": "self", "1": "rhs"}.get(fields[0])
            if side:
                return (side, variants[0] if variants else None, casts, None)
        l = p["l"]
        if 1 <= l <= b.argc and not p.get("p"):
            return ("self" if l == 1 else "rhs" if l == 2 else "arg%d" % l, None, casts, None)
        ds = b.defs().get(l, [])
        if len(ds) != 1:
            return ("other", None, casts, None)
        kind, bb, si, x = ds[0]
        if kind == "stmt":
            rv = x["rv"]
            if rv["k"] == "use":
                cur = rv["op"]
            elif rv["k"] == "cast":
                casts.append(rv["ck"])
                cur = rv["op"]
            elif rv["k"] == "ref":
                cur = {"k": "copy", "p": rv["p"]}
            else:
                return ("other", None, casts, None)
        else:
            cal = b.callee(x)
            if cal.endswith("::into_inner") or cal.endswith("::deref") or cal.endswith("::clone"):
                cur = x["args"][0]
            else:
                return ("call:" + cal, None, casts, None)
    return ("other", None, casts, None)


def collect(facts, name, init=None):
    """returns (body, ops) where ops = list of dicts for binops, casts and calls with abstract state"""
    b = facts.body(name)
    tup = None
    for l, ds in b.defs().items():
        if len(ds) == 1 and ds[0][0] == "stmt" and ds[0][3]["rv"]["k"] == "agg" and ds[0][3]["rv"].get("adt") == "(tuple)":
            ty = b.local_ty(l)
            if ty.count(VALUE) == 2:
                tup = l
    extra = [tup] if tup is not None else []
    extra += [1, 2]
    vf = VarFlow(facts, b, extra_locals=extra)
    ops = {}

    def snap(st):
        out = {}
        for k, v in st.items():
            if tup is not None and (k.startswith("_%d." % tup)):
                out[k.replace("_%d.0" % tup, "self").replace("_%d.1" % tup, "rhs")] = sorted(v)
            elif k.startswith("_1") and (len(k) == 2 or not k[2].isdigit()):
                out["self" + k[2:]] = sorted(v)
            elif k.startswith("(*_1)"):
                out["self" + k[5:]] = sorted(v)
            elif k.startswith("(*_2)"):
                out["rhs" + k[5:]] = sorted(v)
            elif b.local_ty(int(re.match(r"_(\d+)", k.lstrip("(*")).group(1))) == "bool" if re.match(r"_(\d+)", k.lstrip("(*")) else False:
                out[k] = sorted(v)
        return out

    def add(key, rec, st):
        r = ops.setdefault(key, rec)
        r.setdefault("states", [])
        s = snap(st)
        if s not in r["states"]:
            r["states"].append(s)

    def on_stmt(bb, si, s, st):
        rv = s["rv"]
        if rv["k"] == "binop":
            add(("binop", bb, si), {"kind": "binop", "op": rv["op"], "ty": rv["tya"], "line": s.get("ln"), "dest": s["d"]["l"],
                                    "a": operand_origin(b, rv["a"])[:3], "b": operand_origin(b, rv["b"])[:3],
                                    "a_const": rv["a"] if rv["a"].get("k") == "const" else None,
                                    "b_const": rv["b"] if rv["b"].get("k") == "const" else None}, st)
        elif rv["k"] == "cast" and rv["ck"] in ("IntToFloat", "FloatToInt", "IntToInt"):
            add(("cast", bb, si), {"kind": "cast", "ck": rv["ck"], "from": rv["from"], "to": rv["to"], "line": s.get("ln"),
                                   "a": operand_origin(b, rv["op"])[:3]}, st)
        elif rv["k"] == "unop":
            add(("unop", bb, si), {"kind": "unop", "op": rv["op"], "ty": rv["tya"], "line": s.get("ln")}, st)

    def on_term(bb, t, st):
        if t["k"] == "call":
            add(("call", bb), {"kind": "call", "callee": b.callee(t), "full": t.get("rfn_full") or t.get("fn_full"), "line": t["ln"],
                               "args": [operand_origin(b, a)[:3] for a in t["args"]]}, st)
        elif t["k"] == "assert":
            add(("assert", bb), {"kind": "assert", "msg": t.get("msg"), "ovop": t.get("ovop"), "line": t["ln"]}, st)

    vf.run(init=init, on_stmt=on_stmt, on_term=on_term)
    return b, list(ops.values()), vf, tup


def pair_of(state):
    """(self variants, rhs variants) of a snapshot"""
    return tuple(state.get("self", ["*"])), tuple(state.get("rhs", ["*"]))


VARIANTS = ("Bytes", "Regex", "Integer", "Float", "Boolean", "Timestamp", "Object", "Array", "Null")
MISMATCH = {"Add", "Sub", "Mul", "Div", "Rem", "Ge", "Gt", "Le", "Lt", "And", "Or", "Merge", "DivideByZero", "Expected", "Coerce"}


def err_pairs(facts, mname):
    """(self variant, rhs variant) pairs for which the method can construct a type-mismatch / zero-division ValueError
    (ValueError::NanFloat, built in float_result, is deliberately not counted: see DESIGN C02).
    Returns (set of pairs, list of error sites)."""
    name = method(mname)
    b = facts.body(name)
    tup = None
    for l, ds in b.defs().items():
        if len(ds) == 1 and ds[0][0] == "stmt" and ds[0][3]["rv"]["k"] == "agg" and ds[0][3]["rv"].get("adt") == "(tuple)":
            if b.local_ty(l).count(VALUE) == 2:
                tup = l
    vf = VarFlow(facts, b, extra_locals=([tup] if tup is not None else []) + [1, 2])
    pairs = set()
    sites = []

    def sides(st):
        def pick(prefixes):
            for k, v in st.items():
                if k in prefixes:
                    vs = set(v) - {MOVED}
                    if vs:
                        return vs
            return None
        s = pick(["_%d.0" % tup] if tup is not None else []) or pick(["_1", "(*_1)"])
        r = pick(["_%d.1" % tup] if tup is not None else []) or pick(["_2", "(*_2)"])
        return s, r

    def on_stmt(bb, si, s, st):
        rv = s["rv"]
        if rv["k"] == "agg" and (rv.get("adt") or "").endswith("value::error::ValueError") or \
                (rv["k"] == "agg" and (rv.get("adt") or "").endswith("::ValueError")):
            if rv.get("variant") not in MISMATCH:
                return
            sv, rvv = sides(st)
            sv = sv or set(VARIANTS)
            rvv = rvv or set(VARIANTS)
            for a in sv:
                for c in rvv:
                    if a in VARIANTS and c in VARIANTS:
                        pairs.add((a, c))
            sites.append({"variant": rv.get("variant"), "line": s.get("ln"), "self": sorted(sv), "rhs": sorted(rvv)})
    COERCE = {"try_bytes": {"Bytes"}, "try_bytes_utf8_lossy": {"Bytes"}, "try_timestamp": {"Timestamp"}, "try_integer": {"Integer"},
              "try_float": {"Float"}, "try_boolean": {"Boolean"}, "try_object": {"Object"}, "try_array": {"Array"}, "try_regex": {"Regex"},
              "try_null": {"Null"}, "try_into_f64": {"Integer", "Float"}, "try_into_i64": {"Integer", "Float"}}

    def on_term(bb, t, st):
        if t["k"] != "call":
            return
        m = re.search(r"VrlValueConvert>::(try_\w+)$", b.callee(t))
        if not m:
            return
        accept = COERCE.get(m.group(1))
        side = operand_origin(b, t["args"][0])[0] if t["args"] else "other"
        sv, rvv = sides(st)
        sv = sv or set(VARIANTS)
        rvv = rvv or set(VARIANTS)
        if accept is None or side not in ("self", "rhs"):
            bad_s, bad_r = sv, rvv          # unknown coercion: every pair of this state may fail
        elif side == "self":
            bad_s, bad_r = sv - accept, rvv
        else:
            bad_s, bad_r = sv, rvv - accept
        for a in bad_s:
            for c in bad_r:
                if a in VARIANTS and c in VARIANTS:
                    pairs.add((a, c))
        sites.append({"variant": "coercion %s of %s" % (m.group(1), side), "line": t["ln"], "self": sorted(bad_s), "rhs": sorted(bad_r)})
    vf.run(on_stmt=on_stmt, on_term=on_term)
    return pairs, sites


INTO_VARIANT = [(r"^(i64|i32|u32|isize|usize|u8|u16|i16|i8|u64)$", "Integer"), (r"^bool$", "Boolean"), (r"^bytes::Bytes|^bytes::BytesMut|^&?str$|String$|Cow<", "Bytes"),
                (r"NotNan|^f64$", "Float"), (r"BTreeMap", "Object"), (r"Vec<", "Array"), (r"DateTime", "Timestamp"), (r"Regex", "Regex")]


def result_variants(facts, mname):
    """{(self variant, rhs variant): set of Value variants the method can return in Ok} ('?' in a set = a producer the rule cannot classify)."""
    name = method(mname)
    b = facts.body(name)
    tup = None
    for l, ds in b.defs().items():
        if len(ds) == 1 and ds[0][0] == "stmt" and ds[0][3]["rv"]["k"] == "agg" and ds[0][3]["rv"].get("adt") == "(tuple)":
            if b.local_ty(l).count(VALUE) == 2:
                tup = l
    # locals that carry the returned value: payload of `_0 = Ok(..)`, closed backwards over plain moves
    carry = set()
    direct_calls = []      # calls that define _0 itself (e.g. `float_result(..)` returned directly)
    for kind, bb, si, x in b.defs().get(0, []):
        if kind == "stmt" and x["rv"]["k"] == "agg" and x["rv"].get("variant") == "Ok":
            l = op_local(x["rv"]["ops"][0])
            if l is not None:
                carry.add(l)
        elif kind == "call":
            direct_calls.append((bb, x))
    grew = True
    while grew:
        grew = False
        for bi, si, s in b.iter_stmts():
            if s["d"]["l"] in carry and not s["d"].get("p") and s["rv"]["k"] == "use":
                p = op_place(s["rv"]["op"])
                if p is not None and not p.get("p") and p["l"] not in carry and not (1 <= p["l"] <= b.argc) and p["l"] != tup:
                    carry.add(p["l"]); grew = True
    vf = VarFlow(facts, b, extra_locals=([tup] if tup is not None else []) + [1, 2])
    out = {}

    def sides(st):
        def pick(prefixes):
            for k, v in st.items():
                if k in prefixes:
                    vs = set(v) - {MOVED}
                    if vs:
                        return vs
            return None
        s = pick(["_%d.0" % tup] if tup is not None else []) or pick(["_1", "(*_1)"]) or set(VARIANTS)
        r = pick(["_%d.1" % tup] if tup is not None else []) or pick(["_2", "(*_2)"]) or set(VARIANTS)
        return s & set(VARIANTS), r & set(VARIANTS)

    def record(st, variants):
        sv, rvv = sides(st)
        for a in sv:
            for c in rvv:
                out.setdefault((a, c), set()).update(variants(a, c))

    def classify_call(cal, full):
        m = re.match(r"^<(.+) as std::convert::Into<value::value::Value>>::into$", full or cal) or \
            re.match(r"^<value::value::Value as std::convert::From<(.+)>>::from$", full or cal)
        if m:
            for rx, v in INTO_VARIANT:
                if re.search(rx, m.group(1)):
                    return v
            return "?"
        if cal.endswith("arithmetic::float_result"):
            return "Float"
        return None

    def on_stmt(bb, si, s, st):
        if s["d"]["l"] not in carry or s["d"].get("p"):
            return
        rv = s["rv"]
        if rv["k"] == "agg" and (rv.get("adt") or "").endswith("value::value::Value"):
            v = rv.get("variant")
            record(st, lambda a, c: {v})
        elif rv["k"] == "use":
            p = op_place(rv["op"])
            if p is None:
                return
            if not p.get("p") and p["l"] in carry:
                return
            side, variant, casts, _ = operand_origin(b, rv["op"])
            if side in ("self", "rhs") and not [e for e in p.get("p", []) if isinstance(e, dict) and "v" in e and e["v"] in VARIANTS]:
                record(st, (lambda a, c: {a}) if side == "self" else (lambda a, c: {c}))
            else:
                # payload of a `?` on float_result etc.: find the producing call through Try::branch
                l = p["l"]
                res = "?"
                for _ in range(4):
                    ds = b.defs().get(l, [])
                    if len(ds) != 1 or ds[0][0] != "call":
                        break
                    cal = b.callee(ds[0][3])
                    if cal.endswith("as std::ops::Try>::branch"):
                        l = op_local(ds[0][3]["args"][0])
                        if l is None:
                            break
                        continue
                    res = classify_call(cal, ds[0][3].get("rfn_full") or ds[0][3].get("fn_full")) or "?"
                    break
                record(st, lambda a, c: {res})

    def on_term(bb, t, st):
        if t["k"] != "call" or t["dest"].get("p"):
            return
        d = t["dest"]["l"]
        cal = b.callee(t)
        if d in carry:
            v = classify_call(cal, t.get("rfn_full") or t.get("fn_full")) or "?"
            record(st, lambda a, c: {v})
        elif d == 0 and not cal.endswith("from_residual") and "from_residual" not in cal:
            v = classify_call(cal, t.get("rfn_full") or t.get("fn_full")) or "?"
            record(st, lambda a, c: {v})
    vf.run(on_stmt=on_stmt, on_term=on_term)
    return out
