"""Shared extraction for C10/C11: operations performed in the VrlValueArithmetic methods, each with the
(self variant, rhs variant) state it is reachable in and the provenance of its operands."""
import re
from facts import op_local, op_place
from varflow import VarFlow, MOVED

TRAIT = "compiler::value::arithmetic::VrlValueArithmetic"
VALUE = "value::value::Value"


def method(name):
    return "<%s as %s>::%s" % (VALUE, TRAIT, name)


def operand_origin(b, op, depth=10):
    """trace an operand back to ('self'|'rhs'|'other', variant or None, [casts])"""
    casts = []
    cur = op
    for _ in range(depth):
        if cur.get("k") == "const":
            return ("const", None, casts, cur)
        p = op_place(cur)
        if p is None:
            return ("other", None, casts, None)
        names = [(e.get("v"), e.get("f")) for e in p.get("p", []) if isinstance(e, dict)]
        # rooted at tuple local fields .0/.1 or at args
        if p.get("p"):
            fields = [e["f"] for e in p["p"] if isinstance(e, dict) and "f" in e]
            variants = [e["v"] for e in p["p"] if isinstance(e, dict) and "v" in e]
            root = p["l"]
            side = None
            if 1 <= root <= b.argc and root in (1, 2):
                side = "self" if root == 1 else "rhs"
            else:
                # tuple (self, rhs)
                ds = b.defs().get(root, [])
                if len(ds) == 1 and ds[0][0] == "stmt" and ds[0][3]["rv"]["k"] == "agg" and ds[0][3]["rv"].get("adt") == "(tuple)" and fields:
                    side = {"0": "self", "1": "rhs"}.get(fields[0])
            if side:
                return (side, variants[0] if variants else None, casts, None)
        l = p["l"]
        if 1 <= l <= b.argc and not p.get("p"):
            return ("self" if l == 1 else "rhs" if l == 2 else "arg%d" % l, None, casts, None)
        ds = b.defs().get(l, [])
        if len(ds) != 1:
            return ("other", None, casts, None)
        kind, bb, si, x = ds[0]
        if kind == "stmt":
            rv = x["rv"]
            if rv["k"] == "use":
                cur = rv["op"]
            elif rv["k"] == "cast":
                casts.append(rv["ck"])
                cur = rv["op"]
            elif rv["k"] == "ref":
                cur = {"k": "copy", "p": rv["p"]}
            else:
                return ("other", None, casts, None)
        else:
            cal = b.callee(x)
            if cal.endswith("::into_inner") or cal.endswith("::deref") or cal.endswith("::clone"):
                cur = x["args"][0]
            else:
                return ("call:" + cal, None, casts, None)
    return ("other", None, casts, None)


def collect(facts, name, init=None):
    """returns (body, ops) where ops = list of dicts for binops, casts and calls with abstract state"""
    b = facts.body(name)
    tup = None
    for l, ds in b.defs().items():
        if len(ds) == 1 and ds[0][0] == "stmt" and ds[0][3]["rv"]["k"] == "agg" and ds[0][3]["rv"].get("adt") == "(tuple)":
            ty = b.local_ty(l)
            if ty.count(VALUE) == 2:
                tup = l
    extra = [tup] if tup is not None else []
    extra += [1, 2]
    vf = VarFlow(facts, b, extra_locals=extra)
    ops = {}

    def snap(st):
        out = {}
        for k, v in st.items():
            if tup is not None and (k.startswith("_%d." % tup)):
                out[k.replace("_%d.0" % tup, "self").replace("_%d.1" % tup, "rhs")] = sorted(v)
            elif k.startswith("_1") and (len(k) == 2 or not k[2].isdigit()):
                out["self" + k[2:]] = sorted(v)
            elif k.startswith("(*_1)"):
                out["self" + k[5:]] = sorted(v)
            elif k.startswith("(*_2)"):
                out["rhs" + k[5:]] = sorted(v)
            elif b.local_ty(int(re.match(r"_(\d+)", k.lstrip("(*")).group(1))) == "bool" if re.match(r"_(\d+)", k.lstrip("(*")) else False:
                out[k] = sorted(v)
        return out

    def add(key, rec, st):
        r = ops.setdefault(key, rec)
        r.setdefault("states", [])
        s = snap(st)
        if s not in r["states"]:
            r["states"].append(s)

    def on_stmt(bb, si, s, st):
        rv = s["rv"]
        if rv["k"] == "binop":
            add(("binop", bb, si), {"kind": "binop", "op": rv["op"], "ty": rv["tya"], "line": s.get("ln"), "dest": s["d"]["l"],
                                    "a": operand_origin(b, rv["a"])[:3], "b": operand_origin(b, rv["b"])[:3],
                                    "a_const": rv["a"] if rv["a"].get("k") == "const" else None,
                                    "b_const": rv["b"] if rv["b"].get("k") == "const" else None}, st)
        elif rv["k"] == "cast" and rv["ck"] in ("IntToFloat", "FloatToInt", "IntToInt"):
            add(("cast", bb, si), {"kind": "cast", "ck": rv["ck"], "from": rv["from"], "to": rv["to"], "line": s.get("ln"),
                                   "a": operand_origin(b, rv["op"])[:3]}, st)
        elif rv["k"] == "unop":
            add(("unop", bb, si), {"kind": "unop", "op": rv["op"], "ty": rv["tya"], "line": s.get("ln")}, st)

    def on_term(bb, t, st):
        if t["k"] == "call":
            add(("call", bb), {"kind": "call", "callee": b.callee(t), "full": t.get("rfn_full") or t.get("fn_full"), "line": t["ln"],
                               "args": [operand_origin(b, a)[:3] for a in t["args"]]}, st)
        elif t["k"] == "assert":
            add(("assert", bb), {"kind": "assert", "msg": t.get("msg"), "ovop": t.get("ovop"), "line": t["ln"]}, st)

    vf.run(init=init, on_stmt=on_stmt, on_term=on_term)
    return b, list(ops.values()), vf, tup


def pair_of(state):
    """(self variants, rhs variants) of a snapshot"""
    return tuple(state.get("self", ["*"])), tuple(state.get("rhs", ["*"]))
