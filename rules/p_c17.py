"""C17 — target faults are contained (error discipline at the `dyn Target` boundary)."""
from facts import op_local, flow_sources
from varflow import VarFlow
import targetsites as ts

RUNTIME_RESOLVE = "compiler::runtime::Runtime::resolve"
PROGRAM_RESOLVE = "compiler::program::Program::resolve"


def check_sites(chk, rid):
    facts = chk.facts
    sites = ts.dyn_target_sites(facts)
    for b, bb, t, method in sites:
        cons = ts.consumption(b, bb, t)
        kinds = sorted({c[0] for c in cons})
        d = {"fn": b.name, "at": "%s:%s" % (b.file, t["ln"]), "method": method,
             "consumed_by": ["%s %s" % (c[0], c[1].rsplit("::", 1)[-1]) for c in cons][:8]}
        pan = [c for c in cons if c[0] == "panicky"]
        oth = [c for c in cons if c[0] in ("try", "other")]
        if pan:
            chk.instance(rid, d, ok=False)
            chk.violation(rid, b.file, b.name, "%s result -> %s" % (method, pan[0][1].rsplit("::", 1)[-1]),
                          "the Result/Option of `dyn Target::%s` is consumed by %s: a target that rejects the operation (or reports "
                          "nothing) panics the host" % (method, pan[0][1]), detail=d, loc=d["at"])
        elif oth:
            chk.instance(rid, d, ok=False)
            chk.violation(rid, b.file, b.name, "%s result -> %s" % (method, oth[0][1].rsplit("::", 1)[-1]),
                          "the Result of `dyn Target::%s` is consumed by an idiom outside the accepted set "
                          "{.ok()…, drop, match}: %s" % (method, oth[0][1]), detail=d, loc=d["at"])
        elif not cons:
            chk.instance(rid, d, ok=None)
            chk.fail_closed(rid, "could not see how the result of %s at %s is consumed" % (method, d["at"]))
        else:
            chk.instance(rid, d, ok=True)
    return sites


def run(chk):
    chk.explanation = (
        "Decides the error discipline at the `dyn Target` boundary (R17a, R17b), not the equivalence with a fault-skipping run. "
        "R17a: at every call through `dyn Target` (target_get/insert/remove/get_mut) the returned Result is consumed only by the accepted idioms — "
        "`.ok()`-chains ending in a non-panicking consumer (read fault => missing), drop (write fault => ignored), or an explicit match — and never by "
        "unwrap/expect (directly or after .ok().flatten()) or `?`. R17b: in Runtime::resolve the root target_get is matched, both Ok(None) and Err "
        "construct Terminate::Error and cannot reach Program::resolve. R17d: no execution path of a function performs two mutating `dyn Target` operations (target_insert/target_remove/target_get_mut) — "
        "a write is a single target operation, so a fault in it cannot leave a half-applied change made by an earlier one. Undecided: that a rejected write "
        "leaves the embedder's target unchanged inside the embedder's own implementation.")
    chk.assumptions += ["all accesses to the event target go through `dyn Target` (the Context only exposes &dyn/&mut dyn Target)",
                        "panics inside the embedder's Target implementation are the embedder's"]
    rid = "R17a"
    chk.rule(rid, "every `dyn Target` call result is consumed by .ok()-chain / drop / match, never unwrap/expect/?", floor=6)
    check_sites(chk, rid)

    rid = "R17c"
    chk.rule(rid, "no `dyn Target` mutation is performed on the failure edge of another `dyn Target` call (a rejected operation is not 'repaired')", floor=6)
    import cfgq
    from facts import uses_of
    facts = chk.facts
    for b, bb, t, method in ts.dyn_target_sites(facts):
        res = t["dest"]["l"]
        holders = {res}
        for kind, ubb, si, x in uses_of(b, res):
            if kind == "stmt" and x["rv"]["k"] in ("ref", "use") and not any(isinstance(e, dict) and "v" in e for e in (x["rv"].get("p") or (x["rv"].get("op", {}).get("p") or {})).get("p", [])):
                holders.add(x["d"]["l"])
        err_edges = []
        for sbb, place, adt, tg, other in cfgq.discr_switches_on(facts, b, lambda p, a: a == "std::result::Result" and p["l"] in holders):
            if "Err" in tg:
                err_edges.append((tg["Err"], [v for k2, v in tg.items() if k2 != "Err"] + ([other] if other != tg["Err"] else [])))
        for h in holders:
            for kind, ubb, si, x in uses_of(b, h):
                if kind == "call" and (b.callee(x).endswith("::is_err") or b.callee(x).endswith("::is_ok")):
                    e = cfgq.bool_switch_after_call(b, ubb)
                    if e:
                        err_edges.append((e[0], [e[1]]) if b.callee(x).endswith("is_err") else (e[1], [e[0]]))
        bad = []
        for etgt, avoid in err_edges:
            region = b.reachable_from_edges([etgt], avoid=avoid)
            for b2, bb2, t2, m2 in ts.dyn_target_sites(facts):
                if b2.name == b.name and bb2 in region and bb2 != bb and m2 in ("target_insert", "target_remove", "target_get_mut"):
                    bad.append((m2, t2["ln"]))
        d = {"fn": b.name, "at": "%s:%s" % (b.file, t["ln"]), "method": method, "failure_edges_found": len(err_edges), "mutations_on_failure_edge": bad}
        chk.instance(rid, d, ok=not bad)
        if bad:
            chk.violation(rid, b.file, b.name, "%s failure followed by %s" % (method, bad[0][0]),
                          "when `dyn Target::%s` is rejected, the code goes on to call `%s` (line %s): a rejected operation no longer leaves the target "
                          "unchanged" % (method, bad[0][0], bad[0][1]), detail=d, loc=d["at"])

    rid = "R17b"
    chk.rule(rid, "Runtime::resolve: root target_get Err and Ok(None) both end in Terminate::Error before Program::resolve", floor=2)
    b = chk.anchor(RUNTIME_RESOLVE, rid)
    if b is None:
        return
    roots = [(bb, t) for bb, t in b.calls() if t.get("dyn") and (t.get("fn") or "").endswith("Target::target_get")]
    progs = [bb for bb, t in b.calls() if b.callee(t) == PROGRAM_RESOLVE]
    if not roots or not progs:
        chk.fail_closed(rid, "Runtime::resolve: root target_get or Program::resolve call not found")
        return
    rbb, rt = roots[0]
    res = rt["dest"]["l"]
    if not b.dominates(rbb, progs[0]):
        chk.violation(rid, b.file, RUNTIME_RESOLVE, "root check does not dominate Program::resolve",
                      "the program can start without the root target check")
    vf = VarFlow(chk.facts, b, extra_locals=[res])
    reach = {"Err": set(), "Ok/None": set(), "Ok/Some": set()}
    key = "_%d" % res

    def on_term(bb, t, st):
        v = st.get(key)
        inner = st.get(key + " as Ok.0")
        if v is None:
            return
        if v == frozenset(["Err"]):
            reach["Err"].add(bb)
        elif v == frozenset(["Ok"]) and inner == frozenset(["None"]):
            reach["Ok/None"].add(bb)
        elif v == frozenset(["Ok"]) and inner == frozenset(["Some"]):
            reach["Ok/Some"].add(bb)
    vf.run(on_term=on_term)
    term_err_blocks = {bi for bi, si, s in b.iter_stmts() if s["rv"]["k"] == "agg" and s["rv"].get("adt") == "compiler::runtime::Terminate"
                       and s["rv"].get("variant") == "Error"}
    for case in ("Err", "Ok/None"):
        blocks = reach[case]
        d = {"fn": RUNTIME_RESOLVE, "case": "root target_get -> %s" % case, "blocks": len(blocks)}
        bad = None
        if not blocks:
            bad = "case not distinguished (no discriminant test on the root read)"
        elif progs[0] in blocks:
            bad = "Program::resolve is reachable"
        elif not (blocks & term_err_blocks):
            bad = "no Terminate::Error is constructed"
        if bad:
            chk.instance(rid, d, ok=False)
            chk.violation(rid, b.file, RUNTIME_RESOLVE, "root check %s" % case,
                          "when the root read yields %s: %s" % (case, bad), detail=d)
        else:
            chk.instance(rid, d, ok=True)


def _siblings(chk):
    """R17d: at most one mutating target operation per path"""
    facts = chk.facts
    rid = "R17d"
    chk.rule(rid, "no path performs two mutating `dyn Target` operations", floor=2)
    by_body = {}
    for b, bb, t, method in ts.dyn_target_sites(facts):
        if method in ("target_insert", "target_remove", "target_get_mut"):
            by_body.setdefault(b.name, (b, []))[1].append((bb, t, method))
    for n, (b, sites) in sorted(by_body.items()):
        pairs = []
        for bb1, t1, m1 in sites:
            after = b.reachable_from_edges(b.succ(bb1))
            for bb2, t2, m2 in sites:
                if bb2 != bb1 and bb2 in after:
                    pairs.append((m1, t1["ln"], m2, t2["ln"]))
        d = {"fn": n, "mutating_sites": [(m, t["ln"]) for bb, t, m in sites], "sequenced_pairs": pairs[:3]}
        chk.instance(rid, d, ok=not pairs)
        if pairs:
            m1, l1, m2, l2 = pairs[0]
            chk.violation(rid, b.file, n, "two mutating target operations on one path",
                          "%s performs %s (line %s) and then %s (line %s) on the same path: if the second is rejected by the target the first has already "
                          "changed the event, so a rejected write no longer leaves the target unchanged" % (n, m1, l1, m2, l2), detail=d, loc="%s:%s" % (b.file, l1))
