"""C27 — digests match the reference algorithms (variant -> algorithm name agreement)."""
import re
import trie
import cfgq
import fmap

DISPATCHERS = {
    "stdlib::sha2::sha2": {"floor": 6, "validator": "stdlib::sha2::variants", "fallthrough": "unreachable"},
    "stdlib::sha3::sha3": {"floor": 4, "validator": "stdlib::sha3::variants", "fallthrough": "unreachable"},
    "stdlib::hmac::hmac": {"floor": 5, "validator": None, "fallthrough": "err"},
    "stdlib::crc::crc": {"floor": 100, "validator": "stdlib::crc::VALID_ALGORITHMS", "fallthrough": "err"},
    "stdlib::xxhash::xxhash": {"floor": 4, "validator": "stdlib::xxhash::VALID_VARIANTS", "fallthrough": "err"},
}
SINGLE = {  # function identifier -> crate token its resolve must reach
    "md5": r"(^|<|::<)md5::", "sha1": r"(^|<|::<)sha1::", "seahash": r"(^|<|::<)seahash::",
}
ALIASES = {"sha1": {"sha1"}}


def run(chk):
    facts = chk.facts
    chk.explanation = (
        "Decides variant -> algorithm NAME agreement, not the algorithms. With P-TRIE over sha2/sha3 (byte tries), hmac/crc/xxhash (str chains): R27a each "
        "accepted variant literal's leaf instantiates a hasher/constant whose name normalises to the literal ('SHA-512/224' -> Sha512_224, 'CRC_32_ISCSI' -> "
        "crc::CRC_32_ISCSI, 'XXH3-64' -> xxh3_64) and to no sibling literal's name; R27b the validator table (variants()/VALID_*) equals the dispatched "
        "set, so the `unreachable!` fall-through of sha2/sha3 really is unreachable; R27c md5/sha1/seahash reach their own crate. Undecided: the algorithms.")
    M = fmap.FMap(facts)
    for fn, cfg in DISPATCHERS.items():
        b = chk.anchor(fn, "R27a")
        if b is None:
            continue
        disp = trie.literal_dispatch(facts, b)
        sigs = trie.leaf_signatures(facts, b, disp)
        rid = "R27a"
        chk.rule(rid, "each variant literal's leaf instantiates the algorithm of that name (and of no sibling)", floor=115)
        norms = {lit: trie.norm(lit) for lit in disp}
        if len(disp) < cfg["floor"]:
            chk.fail_closed(rid, "%s: only %d literals reconstructed (expected >= %d)" % (fn, len(disp), cfg["floor"]))
        for lit in sorted(disp):
            toks = trie.name_tokens(sigs[lit])
            own = norms[lit] in toks
            siblings = sorted(l2 for l2, n2 in norms.items() if l2 != lit and n2 in toks and n2 != norms[lit] and set(disp[l2]) != set(disp[lit]))
            # a sibling whose normalised name is a substring-free distinct token only
            d = {"function": fn, "variant": lit, "own_name_found": own, "sibling_names_found": siblings,
                 "leaf_algorithm_tokens": sorted(t for t in toks if any(c.isdigit() for c in t))[:8]}
            ok = own and not siblings
            chk.instance(rid, d, ok=ok)
            if not ok:
                chk.violation(rid, b.file, fn, "variant `%s` -> %s" % (lit, (siblings or ["?"])[0]),
                              "variant `%s` of %s is computed with %s: the digest does not match the published algorithm of that name"
                              % (lit, fn.rsplit("::", 1)[1], ("the algorithm of `%s`" % siblings[0]) if siblings else "an algorithm whose name does not match"),
                              detail=d)
        rid = "R27b"
        chk.rule(rid, "validator table == dispatched literal set (the unreachable!/Err fall-through is sound)", floor=4)
        if cfg["validator"]:
            v = cfg["validator"]
            names = [v] + facts.promoteds_of(v)
            strs = set()
            for n in names:
                if facts.has(n):
                    strs |= set(cfgq.body_const_strs(facts.body(n)))
                    for pn in facts.promoteds_of(n):
                        strs |= set(cfgq.body_const_strs(facts.body(pn)))
            d = {"function": fn, "validator": v, "validator_names": len(strs), "dispatched": len(disp),
                 "validated_not_dispatched": sorted(strs - set(disp))[:5], "dispatched_not_validated": sorted(set(disp) - strs)[:5]}
            ok = strs == set(disp)
            if cfg["fallthrough"] == "err":
                ok = strs <= set(disp) or strs == set(disp)   # extra dispatch arms are harmless when the fall-through is Err; a validated name without arm is not
                ok = not (strs - set(disp))
            chk.instance(rid, d, ok=ok and bool(strs))
            if not (ok and strs):
                chk.violation(rid, b.file, fn, "validator/dispatch mismatch",
                              "%s: the compile-time validator accepts %s that the run-time dispatch does not handle (%s)"
                              % (fn, d["validated_not_dispatched"] or "nothing readable", "panic: unreachable!" if cfg["fallthrough"] == "unreachable" else "runtime error"),
                              detail=d)
    rid = "R27c"
    chk.rule(rid, "md5 / sha1 / seahash reach their own crate's implementation", floor=3)
    for ident, rx in SINGLE.items():
        f = M.by_ident.get(ident)
        if not f:
            chk.fail_closed(rid, "function %s not found" % ident)
            continue
        roots = [r for r in (M.resolve_body(e) for e in f["exprs"]) if r]
        seen, ext, par = facts.reach(roots, stop=lambda c: fmap.is_child_eval(c))
        fulls = set(ext)
        for n in seen:
            nb = facts.body(n)
            for bb, t in nb.calls():
                fulls.add(t.get("rfn_full") or t.get("fn_full") or nb.callee(t))
        hits = sorted(c for c in fulls if re.search(rx, c))
        others = sorted(c for c in fulls if re.search(r"(^|<|::<)(md5|sha1|sha2|sha3|seahash|xxhash_rust|crc)::", c) and not re.search(rx, c))
        d = {"function": ident, "own_crate_callees": hits[:3], "other_digest_crates": others[:3]}
        ok = bool(hits) and not others
        chk.instance(rid, d, ok=ok)
        if not ok:
            chk.violation(rid, f["file"], f["self"], "`%s` implementation crate" % ident,
                          "`%s` does not (only) call its own digest crate: %s" % (ident, others[:2] or "no callee found"), detail=d)
