"""C27 — digests match the reference algorithms (variant -> algorithm name agreement)."""
import re
import trie
import cfgq
import fmap

DISPATCHERS = {
    "stdlib::sha2::sha2": {"floor": 6, "validator": "stdlib::sha2::variants", "fallthrough": "unreachable"},
    "stdlib::sha3::sha3": {"floor": 4, "validator": "stdlib::sha3::variants", "fallthrough": "unreachable"},
    "stdlib::hmac::hmac": {"floor": 5, "validator": None, "fallthrough": "err"},
    "stdlib::crc::crc": {"floor": 100, "validator": "stdlib::crc::VALID_ALGORITHMS", "fallthrough": "err"},
    "stdlib::xxhash::xxhash": {"floor": 4, "validator": "stdlib::xxhash::VALID_VARIANTS", "fallthrough": "err"},
}
SINGLE = {  # function identifier -> crate token its resolve must reach
    "md5": r"(^|<|::<)md5::", "sha1": r"(^|<|::<)sha1::", "seahash": r"(^|<|::<)seahash::",
}
ALIASES = {"sha1": {"sha1"}}


def run(chk):
    facts = chk.facts
    chk.explanation = (
        "Decides variant -> algorithm NAME agreement, not the algorithms. With P-TRIE over sha2/sha3 (byte tries), hmac/crc/xxhash (str chains): R27a each "
        "accepted variant literal's leaf instantiates a hasher/constant whose name normalises to the literal ('SHA-512/224' -> Sha512_224, 'CRC_32_ISCSI' -> "
        "crc::CRC_32_ISCSI, 'XXH3-64' -> xxh3_64) and to no sibling literal's name; R27b the validator table (variants()/VALID_*) equals the dispatched "
        "set, so the `unreachable!` fall-through of sha2/sha3 really is unreachable; R27c md5/sha1/seahash reach their own crate; R27d a digest (result of a hasher's checksum/finalize/hash/xxh* call) is never narrowed by an integer cast before it is rendered (a narrowing `as` keeps the low bits only: the wide CRCs / 128-bit hashes would no longer match). R27f the hashed message and the key are taken as raw bytes: inside the digest functions a lossy UTF-8 conversion (`try_bytes_utf8_lossy`, `from_utf8_lossy`: every invalid sequence becomes U+FFFD) is applied only to the algorithm/variant argument, never to a value derived from another parameter; R27e the digest is never produced without looking at the algorithm/variant argument: in resolve every success definition of the return place is dominated by a read of that field. Undecided: the algorithms.")
    M = fmap.FMap(facts)
    for fn0, cfg in DISPATCHERS.items():
        # the dispatch normally lives in the helper named like the function; after a refactor it may live in another body of the same
        # module (e.g. a constructor of a keyed-hasher enum): take the module's body with the largest literal dispatch
        fn, b, disp = fn0, None, {}
        if facts.has(fn0):
            b = facts.body(fn0)
            disp = trie.literal_dispatch(facts, b)
        if len(disp) < cfg["floor"]:
            mod = fn0.rsplit("::", 1)[0] + "::"
            best = None
            for n in facts.names(lambda n: (n.startswith(mod) or n.startswith("<" + mod)) and "::tests::" not in n and "::test::" not in n):
                nb = facts.body(n)
                if nb.kind in ("const", "static", "promoted"):
                    continue
                dd = trie.literal_dispatch(facts, nb)
                if len(dd) >= cfg["floor"] and (best is None or len(dd) > len(best[2])):
                    best = (n, nb, dd)
            if best is not None:
                fn, b, disp = best
                chk.note("R27a", "dispatch of %s found in %s" % (fn0, fn))
        if b is None:
            chk.fail_closed("R27a", "anchor not found: %s (and no body of its module holds a literal dispatch)" % fn0)
            continue
        sigs = trie.leaf_signatures(facts, b, disp)
        rid = "R27a"
        chk.rule(rid, "each variant literal's leaf instantiates the algorithm of that name (and of no sibling)", floor=115)
        norms = {lit: trie.norm(lit) for lit in disp}
        if len(disp) < cfg["floor"]:
            chk.fail_closed(rid, "%s: only %d literals reconstructed (expected >= %d)" % (fn, len(disp), cfg["floor"]))
        for lit in sorted(disp):
            toks = trie.name_tokens(sigs[lit])
            own = norms[lit] in toks
            siblings = sorted(l2 for l2, n2 in norms.items() if l2 != lit and n2 in toks and n2 != norms[lit] and set(disp[l2]) != set(disp[lit]))
            # a sibling whose normalised name is a substring-free distinct token only
            d = {"function": fn, "variant": lit, "own_name_found": own, "sibling_names_found": siblings,
                 "leaf_algorithm_tokens": sorted(t for t in toks if any(c.isdigit() for c in t))[:8]}
            ok = own and not siblings
            chk.instance(rid, d, ok=ok)
            if not ok:
                chk.violation(rid, b.file, fn, "variant `%s` -> %s" % (lit, (siblings or ["?"])[0]),
                              "variant `%s` of %s is computed with %s: the digest does not match the published algorithm of that name"
                              % (lit, fn.rsplit("::", 1)[1], ("the algorithm of `%s`" % siblings[0]) if siblings else "an algorithm whose name does not match"),
                              detail=d)
        rid = "R27b"
        chk.rule(rid, "validator table == dispatched literal set (the unreachable!/Err fall-through is sound)", floor=4)
        if cfg["validator"]:
            v = cfg["validator"]
            names = [v] + facts.promoteds_of(v)
            strs = set()
            for n in names:
                if facts.has(n):
                    strs |= set(cfgq.body_const_strs(facts.body(n)))
                    for pn in facts.promoteds_of(n):
                        strs |= set(cfgq.body_const_strs(facts.body(pn)))
            d = {"function": fn, "validator": v, "validator_names": len(strs), "dispatched": len(disp),
                 "validated_not_dispatched": sorted(strs - set(disp))[:5], "dispatched_not_validated": sorted(set(disp) - strs)[:5]}
            ok = strs == set(disp)
            if cfg["fallthrough"] == "err":
                ok = strs <= set(disp) or strs == set(disp)   # extra dispatch arms are harmless when the fall-through is Err; a validated name without arm is not
                ok = not (strs - set(disp))
            chk.instance(rid, d, ok=ok and bool(strs))
            if not (ok and strs):
                chk.violation(rid, b.file, fn, "validator/dispatch mismatch",
                              "%s: the compile-time validator accepts %s that the run-time dispatch does not handle (%s)"
                              % (fn, d["validated_not_dispatched"] or "nothing readable", "panic: unreachable!" if cfg["fallthrough"] == "unreachable" else "runtime error"),
                              detail=d)
    rid = "R27c"
    chk.rule(rid, "md5 / sha1 / seahash reach their own crate's implementation", floor=3)
    for ident, rx in SINGLE.items():
        f = M.by_ident.get(ident)
        if not f:
            chk.fail_closed(rid, "function %s not found" % ident)
            continue
        roots = [r for r in (M.resolve_body(e) for e in f["exprs"]) if r]
        seen, ext, par = facts.reach(roots, stop=lambda c: fmap.is_child_eval(c))
        fulls = set(ext)
        for n in seen:
            nb = facts.body(n)
            for bb, t in nb.calls():
                fulls.add(t.get("rfn_full") or t.get("fn_full") or nb.callee(t))
        hits = sorted(c for c in fulls if re.search(rx, c))
        others = sorted(c for c in fulls if re.search(r"(^|<|::<)(md5|sha1|sha2|sha3|seahash|xxhash_rust|crc)::", c) and not re.search(rx, c))
        d = {"function": ident, "own_crate_callees": hits[:3], "other_digest_crates": others[:3]}
        ok = bool(hits) and not others
        chk.instance(rid, d, ok=ok)
        if not ok:
            chk.violation(rid, f["file"], f["self"], "`%s` implementation crate" % ident,
                          "`%s` does not (only) call its own digest crate: %s" % (ident, others[:2] or "no callee found"), detail=d)

    rule_r27d(chk, M)
    rule_r27e(chk, M)
    rule_r27f(chk, M)


HASH_OUT = re.compile(r"(^|[<:])crc::Crc<.*>::checksum$|::checksum$|xxhash_rust::\w+::xxh\w+$|seahash::\w*::?hash\w*$|seahash::hash$|::finalize$|::finalize_fixed$|::digest$|::into_bytes$")
WIDTH = {"u8": 8, "i8": 8, "u16": 16, "i16": 16, "u32": 32, "i32": 32, "u64": 64, "i64": 64, "usize": 64, "isize": 64, "u128": 128, "i128": 128}
DIGEST_FUNCS = ("crc", "xxhash", "seahash", "md5", "sha1", "sha2", "sha3", "hmac")


def rule_r27d(chk, M):
    from facts import flow_sources, op_local
    facts = chk.facts
    rid = "R27d"
    chk.rule(rid, "no narrowing integer cast on a value derived from a hasher's output in the digest functions", floor=8)
    for ident in DIGEST_FUNCS:
        f = M.by_ident.get(ident)
        if f is None:
            chk.fail_closed(rid, "digest function `%s` not found in the registry" % ident)
            continue
        roots = [r for r in (M.resolve_body(e) for e in f["exprs"]) if r]
        seen, _ext, _par = facts.reach(roots, stop=lambda c: c.startswith("dyn ") or c.startswith("? "), cha=False)
        bodies = [n for n in seen if facts.has(n) and (n.startswith("stdlib::") or n.startswith("<stdlib::"))]
        n_casts = 0
        bad = []
        for n in bodies:
            b = facts.body(n)
            for bi, si, st in b.iter_stmts():
                rv = st["rv"]
                if rv["k"] != "cast" or rv.get("ck") != "IntToInt":
                    continue
                wf, wt = WIDTH.get(rv.get("from")), WIDTH.get(rv.get("to"))
                if wf is None or wt is None or wt >= wf:
                    continue
                src = op_local(rv["op"])
                if src is None:
                    continue
                n_casts += 1
                srcs = flow_sources(b, src)
                hs = [x for x in srcs if x[0] == "call" and HASH_OUT.search(x[2])]
                if hs:
                    bad.append((n, b, st, rv, hs[0][2]))
        d = {"function": ident, "bodies_examined": len(bodies), "narrowing_casts_examined": n_casts, "on_digest": len(bad)}
        chk.instance(rid, d, ok=not bad)
        for k, (n, b, st, rv, cal) in enumerate(bad):
            chk.violation(rid, b.file, n, "narrowing cast %s->%s of a digest #%d" % (rv.get("from"), rv.get("to"), k),
                          "`%s`: the result of %s is cast %s -> %s (%s): the upper bits of the digest are dropped, so variants wider than %s bits no longer "
                          "match the published algorithm" % (ident, cal, rv.get("from"), rv.get("to"), b.loc(st), WIDTH.get(rv.get("to"))), detail=d)


def rule_r27e(chk, M):
    from facts import op_place
    facts = chk.facts
    rid = "R27e"
    chk.rule(rid, "resolve produces a digest only after reading the algorithm/variant field", floor=5)
    for ident in ("sha2", "sha3", "hmac", "crc", "xxhash"):
        f = M.by_ident.get(ident)
        if f is None:
            chk.fail_closed(rid, "digest function `%s` not found" % ident)
            continue
        for e in f["exprs"]:
            adt = facts.adts.get(e)
            rn = M.resolve_body(e)
            if not adt or not rn:
                continue
            fld = [x for x in adt["variants"][0]["fields"] if x in ("algorithm", "variant")]
            if not fld:
                chk.fail_closed(rid, "%s has no algorithm/variant field" % e)
                continue
            b = facts.body(rn)
            reads = set()
            for bi, si, st in b.iter_stmts():
                rv = st["rv"]
                pl = rv.get("p") if rv["k"] in ("ref", "discr") else (op_place(rv["op"]) if rv["k"] in ("use", "cast") else None)
                if pl and pl["l"] == 1 and fld[0] in [x.get("f") for x in pl.get("p", []) if isinstance(x, dict)] and not b.is_cleanup(bi):
                    reads.add(bi)
            succ_defs = []
            for kind, bb, si, x in b.defs().get(0, []):
                if b.is_cleanup(bb):
                    continue
                if kind == "call":
                    if "from_residual" in b.callee(x):
                        continue
                    succ_defs.append((bb, x["ln"]))
                elif x["rv"]["k"] == "agg" and x["rv"].get("variant") == "Ok":
                    succ_defs.append((bb, x.get("ln")))
                elif x["rv"]["k"] == "use":
                    succ_defs.append((bb, x.get("ln")))
            bad = [(bb, ln) for bb, ln in succ_defs if not any(b.dominates(r, bb) for r in reads)]
            d = {"function": ident, "field": fld[0], "field_reads": len(reads), "success_returns": len(succ_defs), "without_reading_the_field": [ln for bb, ln in bad]}
            chk.instance(rid, d, ok=bool(succ_defs) and not bad)
            if not succ_defs:
                chk.fail_closed(rid, "%s: no success definition of the return place found in resolve" % ident)
            for bb, ln in bad:
                chk.violation(rid, b.file, rn, "`%s` returns a digest without reading `%s`" % (ident, fld[0]),
                              "`%s`: resolve can return a result (line %s) on a path that never looks at the `%s` argument, so the digest computed there cannot "
                              "depend on the requested algorithm" % (ident, ln, fld[0]), detail=d, loc="%s:%s" % (b.file, ln))


SELECTOR_PARAMS = ("algorithm", "variant")


def rule_r27f(chk, M):
    from facts import flow_sources, op_local
    facts = chk.facts
    rid = "R27f"
    chk.rule(rid, "lossy UTF-8 conversion inside the digest functions touches only the algorithm/variant argument", floor=2)
    for ident in DIGEST_FUNCS:
        f = M.by_ident.get(ident)
        if f is None:
            chk.fail_closed(rid, "digest function `%s` not found in the registry" % ident)
            continue
        roots = [r for r in (M.resolve_body(e) for e in f["exprs"]) if r]
        seen, _ext, _par = facts.reach(roots, stop=lambda c: c.startswith("dyn ") or c.startswith("? "), cha=False)
        bodies = [n for n in seen if facts.has(n) and (n.startswith("stdlib::") or n.startswith("<stdlib::"))]
        for n in sorted(bodies):
            b = facts.body(n)
            for bb, t in b.calls():
                cal = b.callee(t) or ""
                if "utf8_lossy" not in cal or not t["args"]:
                    continue
                l = op_local(t["args"][0])
                srcs = flow_sources(b, l) if l is not None else set()
                params = sorted({b.local_name(x[1]) or ("_%d" % x[1]) for x in srcs if x[0] == "arg"})
                upvars = sorted({x[1] for x in srcs if x[0] == "upvar"})
                names = params + upvars
                # `self` (the function struct in resolve) is followed by field name below
                fields = set()
                if "self" in names:
                    for bi, si, st in b.iter_stmts():
                        rv = st["rv"]
                        pl = rv.get("p") if rv["k"] in ("ref",) else None
                        if pl and pl["l"] == 1:
                            fields |= {x.get("f") for x in pl.get("p", []) if isinstance(x, dict) and x.get("f")}
                bad = [x for x in names if x != "self" and x not in SELECTOR_PARAMS]
                d = {"function": ident, "body": n, "callee": cal, "receiver_derives_from": names, "site": b.loc(t)}
                if not names:
                    chk.note(rid, "%s: receiver of %s not traced to a parameter (unarmed)" % (b.loc(t), cal))
                    continue
                chk.instance(rid, d, ok=not bad)
                if bad:
                    chk.violation(rid, b.file, n, "lossy UTF-8 conversion of `%s`" % bad[0],
                                  "`%s`: %s applies %s to a value derived from parameter `%s`; invalid UTF-8 sequences in it are replaced by U+FFFD before hashing/keying, "
                                  "so for binary input the result is not the published algorithm's digest of the given bytes" % (ident, b.loc(t), cal.rsplit("::", 1)[1], bad[0]), detail=d)
