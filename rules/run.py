#!/usr/bin/env python3
"""usage: run.py --property Cnn --facts DIR [--tier quick|thorough] [--repo /repo]"""
import argparse
import importlib
import os
import sys
import traceback

sys.path.insert(0, os.path.dirname(os.path.abspath(__file__)))
from facts import Facts, AnchorMissing  # noqa: E402
from common import Check  # noqa: E402


def main():
    ap = argparse.ArgumentParser()
    ap.add_argument("--property", required=True)
    ap.add_argument("--facts", required=True)
    ap.add_argument("--tier", default="quick")
    ap.add_argument("--repo", default=os.environ.get("VERIF_REPO", "/repo"))
    a = ap.parse_args()
    pid = a.property
    facts = Facts(a.facts)
    chk = Check(pid, facts, tier=a.tier, repo=a.repo)
    try:
        mod = importlib.import_module("p_" + pid.lower())
        mod.run(chk)
        if hasattr(mod, "_siblings"):
            mod._siblings(chk)
    except AnchorMissing as e:
        chk.fail_closed("anchor", str(e))
    except Exception as e:  # a crashing rule must never look like a pass
        traceback.print_exc()
        chk.fail_closed("engine", "rule engine error: %r" % (e,))
    rc = chk.finish()
    sys.exit(rc)


if __name__ == "__main__":
    main()
