"""P-RET: which Value variants can a function body return?  (classification of the producers of the returned value)

For a body returning `Result<Value, _>` or `Value`, the carriers of the returned value are followed backwards over plain
moves, `?` (Try::branch) and Ok(..) wrapping; each producer is classified:
  * `Value::X { .. }` aggregates / `Value::X` constants              -> X
  * `<T as Into<Value>>::into`, `<Value as From<T>>::from`             -> by T (i64 -> Integer, String -> Bytes, ...)
  * a call to another local function returning Value / Result<Value,_> -> that function's classification (depth-bounded)
  * anything else (an argument handed back, a field, an unknown call)  -> '?'
'?' means "the rule does not know": it never causes a report."""
import re
from facts import op_local, op_place

VALUE = "value::value::Value"
INTO_VARIANT = [(r"^std::collections::BTreeMap<|^(value::)?ObjectMap$", "Object"), (r"^std::vec::Vec<|^&\[(?!u8\])", "Array"),
                (r"^(i64|i32|u32|isize|usize|u8|u16|i16|i8|u64|i128|u128)$", "Integer"), (r"^bool$", "Boolean"),
                (r"^bytes::Bytes$|^bytes::BytesMut$|^&('\w+ )?str$|^std::string::String$|^std::borrow::Cow<'?\w*,? ?str>$|^&std::string::String$|^&\[u8\]$|^char$|^(value::)?(value::)?KeyString$", "Bytes"),
                (r"^ordered_float::NotNan<f64>$|^f64$|^f32$", "Float"),
                (r"^chrono::DateTime<", "Timestamp"), (r"ValueRegex$|^regex::Regex$", "Regex"), (r"^\(\)$", "Null")]


def classify_type(t):
    t = t.strip()
    if t == VALUE or t.endswith("::Value") and "value::value" in t:
        return None
    m = re.match(r"^std::option::Option<(.*)>$", t)
    if m:
        inner = classify_type(m.group(1))
        return None if inner is None else inner + "|Null"
    for rx, v in INTO_VARIANT:
        if re.search(rx, t):
            return v
    return None


def classify_conv(full):
    m = re.match(r"^<(.+) as std::convert::Into<value::value::Value>>::into$", full) or \
        re.match(r"^<value::value::Value as std::convert::From<(.+)>>::from$", full) or \
        re.match(r"^value::value::\w+::<impl std::convert::From<(.+)> for value::value::Value>::from$", full) or \
        re.match(r"^.*<impl std::convert::From<(.+)> for value::value::Value>::from$", full)
    if m:
        return classify_type(m.group(1)) or "?"
    return None


class RetKinds:
    def __init__(self, facts, max_depth=4):
        self.facts = facts
        self.max_depth = max_depth
        self.memo = {}

    def of(self, name, depth=0, scope=None):
        """set of variant names and possibly '?'.  `scope`: module prefix inside which local callees are followed (helpers of the same
        stdlib function); a callee outside it — typically a polymorphic converter shared by several functions — counts as unknown."""
        if scope is None:
            m = re.match(r"^<?((?:\w+::)+?)(\w+)(?: as |::)", name)
            m2 = re.match(r"^<?(stdlib::\w+::)", name)
            scope = m2.group(1) if m2 else (m.group(1) if m else "")
            self.scope = scope
        if name in self.memo:
            return self.memo[name]
        if depth > self.max_depth or not self.facts.has(name):
            return {"?"}
        self.memo[name] = {"?"}      # recursion guard
        b = self.facts.body(name)
        out = set()
        carry = set([0])
        defs = b.defs()
        work = [0]
        seen = set()
        while work:
            l = work.pop()
            if l in seen:
                continue
            seen.add(l)
            if 1 <= l <= b.argc:
                out.add("?")
                continue
            ds = defs.get(l, [])
            if not ds:
                out.add("?")
            for kind, bb, si, x in ds:
                if kind == "stmt":
                    if x["d"].get("p"):
                        # partial write into the carrier (a field): not a whole-value producer
                        continue
                    rv = x["rv"]
                    k = rv["k"]
                    if k == "agg":
                        adt = rv.get("adt") or ""
                        if adt.endswith(VALUE):
                            out.add(rv.get("variant"))
                        elif adt == "std::result::Result":
                            if rv.get("variant") == "Ok":
                                o = rv["ops"][0]
                                ol = op_local(o)
                                if ol is not None and not op_place(o).get("p"):
                                    work.append(ol)
                                elif o.get("k") == "const":
                                    out |= self.const_variant(o)
                                else:
                                    out.add("?")
                            # Err: no value
                        elif adt == "std::option::Option" and rv.get("variant") == "Some":
                            ol = op_local(rv["ops"][0])
                            if ol is not None:
                                work.append(ol)
                            else:
                                out.add("?")
                        else:
                            out.add("?")
                    elif k == "use":
                        o = rv["op"]
                        if o.get("k") == "const":
                            out |= self.const_variant(o)
                        else:
                            p = op_place(o)
                            if p is None:
                                out.add("?")
                            elif not p.get("p"):
                                work.append(p["l"])
                            else:
                                # payload of a matched Result/ControlFlow (`?`) or an Option: follow the container
                                fields = [e for e in p["p"] if isinstance(e, dict)]
                                vs = [e.get("v") for e in fields if "v" in e]
                                if vs and vs[0] in ("Continue", "Ok", "Some") and all(e == "*" or isinstance(e, dict) for e in p["p"]):
                                    work.append(p["l"])
                                else:
                                    out.add("?")
                    elif k in ("cast",):
                        ol = op_local(rv["op"])
                        if ol is not None:
                            work.append(ol)
                        else:
                            out.add("?")
                    else:
                        out.add("?")
                else:  # call
                    t = x
                    cal = b.callee(t)
                    full = t.get("rfn_full") or t.get("fn_full") or cal
                    c = classify_conv(full)
                    if c is not None:
                        out |= set(c.split("|"))
                        continue
                    if cal.endswith("as std::ops::Try>::branch") or re.search(r"::(clone|to_owned|unwrap|expect|unwrap_or_default)$", cal) and t["args"]:
                        ol = op_local(t["args"][0])
                        if ol is not None:
                            work.append(ol)
                        else:
                            out.add("?")
                        continue
                    if "from_residual" in cal:
                        continue     # error path
                    if re.search(r"std::(result::Result|option::Option)::<.*>::(map|and_then|map_or|map_or_else)$", cal.split("::<")[0] + "::<>::" + cal.rsplit("::", 1)[1]) or \
                            re.search(r"^std::(result::Result|option::Option)::<[^>]*>::(map|and_then)$", t.get("fn") or ""):
                        cl = None
                        for a in t["args"][1:]:
                            al = op_local(a)
                            for k2, b2, s2, x2 in (defs.get(al, []) if al is not None else []):
                                if k2 == "stmt" and x2["rv"]["k"] == "agg" and x2["rv"].get("closure"):
                                    cl = x2["rv"]["closure"]
                        if cl and self.facts.has(cl):
                            out |= self.of(cl, depth + 1, scope)
                        else:
                            out.add("?")
                        continue
                    if re.search(r"^std::(result::Result|option::Option)::<[^>]*>::(map_err|ok_or|ok_or_else|or_else|unwrap_or_else)$", t.get("fn") or "") and t["args"]:
                        ol = op_local(t["args"][0])
                        if ol is not None:
                            work.append(ol)
                        else:
                            out.add("?")
                        continue
                    if cal.endswith("arithmetic::float_result") or cal.endswith("::from_f64_or_zero"):
                        out.add("Float")
                        continue
                    dty = t.get("dty") or ""
                    if self.facts.has(cal) and (cal.startswith(scope) or cal.startswith("<" + scope)) and (dty == VALUE or dty.startswith("std::result::Result<value::value::Value") or dty.startswith("std::result::Result<" + VALUE)):
                        out |= self.of(cal, depth + 1, scope)
                        continue
                    out.add("?")
        self.memo[name] = out
        return out

    def const_variant(self, o):
        s = o.get("item") or o.get("static") or ""
        ty = o.get("ty") or ""
        if ty.endswith(VALUE) or ty == VALUE:
            m = re.search(r"Value::(\w+)$", s)
            if m:
                return {m.group(1)}
            if o.get("variant"):
                return {o["variant"]}
        return {"?"}


def per_variant(facts, name, param_local, R=None):
    """{variant of the Value in `param_local` (a by-value or by-reference parameter / local of body `name`): set of result variants}
    — the producers of the returned value are classified as in RetKinds, but under the P-VAR state (which variant the parameter has) in
    which each producer is reached.  '?' = unclassified producer, 'SAME' is never returned: an operand handed back is reported as its own variant."""
    from varflow import VarFlow, MOVED
    R = R or RetKinds(facts)
    b = facts.body(name)
    VARIANTS = ("Bytes", "Regex", "Integer", "Float", "Boolean", "Timestamp", "Object", "Array", "Null")
    defs = b.defs()
    # carriers of the returned value (as in RetKinds.of, but only inside this body)
    carry = set()
    for kind, bb, si, x in defs.get(0, []):
        if kind == "stmt" and x["rv"]["k"] == "agg" and x["rv"].get("variant") == "Ok":
            l = op_local(x["rv"]["ops"][0])
            if l is not None:
                carry.add(l)
    ret_is_value = b.local_ty(0) == VALUE
    if ret_is_value:
        carry.add(0)
    grew = True
    while grew:
        grew = False
        for bi, si, s in b.iter_stmts():
            if s["d"]["l"] in carry and not s["d"].get("p") and s["rv"]["k"] == "use":
                p = op_place(s["rv"]["op"])
                if p is not None and not p.get("p") and p["l"] not in carry and p["l"] != param_local and not (1 <= p["l"] <= b.argc):
                    carry.add(p["l"]); grew = True
    import stdlibrules
    pal_holder = [stdlibrules.value_aliases(b, [param_local])]
    vf = VarFlow(facts, b, extra_locals=[param_local] + sorted(x for x in pal_holder[0] if b.local_ty(x).endswith(VALUE)))
    out = {}
    keys = ["_%d" % param_local, "(*_%d)" % param_local]

    def cur(st):
        for k in keys + ["_%d" % x for x in sorted(pal_holder[0])] + ["(*_%d)" % x for x in sorted(pal_holder[0])]:
            v = st.get(k)
            if v is not None:
                vs = set(v) - {MOVED}
                if vs and vs <= set(VARIANTS):
                    return vs
        return set(VARIANTS)

    def rec(st, variants):
        for a in cur(st):
            out.setdefault(a, set()).update(variants(a))

    # aliases of the parameter (handed back unchanged => same variant)
    pal = pal_holder[0]

    def on_stmt(bb, si, s, st):
        d = s["d"]
        rv = s["rv"]
        is_ret_agg = d["l"] == 0 and not d.get("p") and rv["k"] == "agg" and rv.get("variant") == "Ok" and (rv.get("adt") == "std::result::Result")
        if is_ret_agg:
            o = rv["ops"][0]
            if o.get("k") == "const":
                cv = R.const_variant(o)
                rec(st, lambda a: cv)
            elif op_local(o) in carry:
                pass          # recorded where the carrier is defined (each arm under its own state)
            elif op_local(o) in pal:
                rec(st, lambda a: {a})
            return
        if d["l"] not in carry or d.get("p"):
            return
        if rv["k"] == "agg" and (rv.get("adt") or "").endswith(VALUE):
            v = rv.get("variant")
            rec(st, lambda a: {v})
        elif rv["k"] == "use":
            o = rv["op"]
            if o.get("k") == "const":
                cv = R.const_variant(o)
                rec(st, lambda a: cv)
                return
            p = op_place(o)
            if p is None:
                return
            if not p.get("p") and p["l"] in carry:
                return
            if p["l"] in pal and all(e == "*" for e in p.get("p", [])):
                rec(st, lambda a: {a})
                return
            # payload of `?`: find the call behind Try::branch
            l = p["l"]
            res = {"?"}
            for _ in range(4):
                ds = defs.get(l, [])
                if len(ds) != 1 or ds[0][0] != "call":
                    break
                cal = b.callee(ds[0][3])
                if cal.endswith("as std::ops::Try>::branch"):
                    l = op_local(ds[0][3]["args"][0])
                    if l is None:
                        break
                    continue
                full = ds[0][3].get("rfn_full") or ds[0][3].get("fn_full") or cal
                c = classify_conv(full)
                if c is not None:
                    res = set(c.split("|"))
                elif cal.endswith("arithmetic::float_result") or cal.endswith("::from_f64_or_zero"):
                    res = {"Float"}
                break
            rec(st, lambda a: res)

    def on_term(bb, t, st):
        if t["k"] != "call" or t["dest"].get("p"):
            return
        dl = t["dest"]["l"]
        cal = b.callee(t)
        if dl not in carry and not (dl == 0 and "from_residual" not in cal):
            return
        if dl == 0 and not ret_is_value and not (t.get("dty") or "").startswith("std::result::Result<" + VALUE):
            return
        full = t.get("rfn_full") or t.get("fn_full") or cal
        c = classify_conv(full)
        if c is not None:
            cs = set(c.split("|"))
            rec(st, lambda a: cs)
        elif cal.endswith("arithmetic::float_result") or cal.endswith("::from_f64_or_zero"):
            rec(st, lambda a: {"Float"})
        elif re.search(r"::(clone|to_owned)$", cal) and t["args"] and op_local(t["args"][0]) in pal:
            rec(st, lambda a: {a})
        else:
            rec(st, lambda a: {"?"})
    vf.run(on_stmt=on_stmt, on_term=on_term)
    return out
