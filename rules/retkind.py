"""P-RET: which Value variants can a function body return?  (classification of the producers of the returned value)

For a body returning `Result<Value, _>` or `Value`, the carriers of the returned value are followed backwards over plain
moves, `?` (Try::branch) and Ok(..) wrapping; each producer is classified:
  * `Value::X { .. }` aggregates / `Value::X` constants              -> X
  * `<T as Into<Value>>::into`, `<Value as From<T>>::from`             -> by T (i64 -> Integer, String -> Bytes, ...)
  * a call to another local function returning Value / Result<Value,_> -> that function's classification (depth-bounded)
  * anything else (an argument handed back, a field, an unknown call)  -> '?'
'?' means "the rule does not know": it never causes a report."""
import re
from facts import op_local, op_place

VALUE = "value::value::Value"
INTO_VARIANT = [(r"^std::collections::BTreeMap<|^(value::)?ObjectMap$", "Object"), (r"^std::vec::Vec<|^&\[(?!u8\])", "Array"),
                (r"^(i64|i32|u32|isize|usize|u8|u16|i16|i8|u64|i128|u128)$", "Integer"), (r"^bool$", "Boolean"),
                (r"^bytes::Bytes$|^bytes::BytesMut$|^&('\w+ )?str$|^std::string::String$|^std::borrow::Cow<'?\w*,? ?str>$|^&std::string::String$|^&\[u8\]$|^char$|^(value::)?(value::)?KeyString$", "Bytes"),
                (r"^ordered_float::NotNan<f64>$|^f64$|^f32$", "Float"),
                (r"^chrono::DateTime<", "Timestamp"), (r"ValueRegex$|^regex::Regex$", "Regex"), (r"^\(\)$", "Null")]


def classify_type(t):
    t = t.strip()
    if t == VALUE or t.endswith("::Value") and "value::value" in t:
        return None
    m = re.match(r"^std::option::Option<(.*)>$", t)
    if m:
        inner = classify_type(m.group(1))
        return None if inner is None else inner + "|Null"
    for rx, v in INTO_VARIANT:
        if re.search(rx, t):
            return v
    return None


def classify_conv(full):
    m = re.match(r"^<(.+) as std::convert::Into<value::value::Value>>::into$", full) or \
        re.match(r"^<value::value::Value as std::convert::From<(.+)>>::from$", full) or \
        re.match(r"^value::value::\w+::<impl std::convert::From<(.+)> for value::value::Value>::from$", full) or \
        re.match(r"^.*<impl std::convert::From<(.+)> for value::value::Value>::from$", full)
    if m:
        return classify_type(m.group(1)) or "?"
    return None


class RetKinds:
    def __init__(self, facts, max_depth=4):
        self.facts = facts
        self.max_depth = max_depth
        self.memo = {}

    def of(self, name, depth=0, scope=None):
        """set of variant names and possibly '?'.  `scope`: module prefix inside which local callees are followed (helpers of the same
        stdlib function); a callee outside it — typically a polymorphic converter shared by several functions — counts as unknown."""
        if scope is None:
            m = re.match(r"^<?((?:\w+::)+?)(\w+)(?: as |::)", name)
            m2 = re.match(r"^<?(stdlib::\w+::)", name)
            scope = m2.group(1) if m2 else (m.group(1) if m else "")
            self.scope = scope
        if name in self.memo:
            return self.memo[name]
        if depth > self.max_depth or not self.facts.has(name):
            return {"?"}
        self.memo[name] = {"?"}      # recursion guard
        b = self.facts.body(name)
        out = set()
        carry = set([0])
        defs = b.defs()
        work = [0]
        seen = set()
        while work:
            l = work.pop()
            if l in seen:
                continue
            seen.add(l)
            if 1 <= l <= b.argc:
                out.add("?")
                continue
            ds = defs.get(l, [])
            if not ds:
                out.add("?")
            for kind, bb, si, x in ds:
                if kind == "stmt":
                    if x["d"].get("p"):
                        # partial write into the carrier (a field): not a whole-value producer
                        continue
                    rv = x["rv"]
                    k = rv["k"]
                    if k == "agg":
                        adt = rv.get("adt") or ""
                        if adt.endswith(VALUE):
                            out.add(rv.get("variant"))
                        elif adt == "std::result::Result":
                            if rv.get("variant") == "Ok":
                                o = rv["ops"][0]
                                ol = op_local(o)
                                if ol is not None and not op_place(o).get("p"):
                                    work.append(ol)
                                elif o.get("k") == "const":
                                    out |= self.const_variant(o)
                                else:
                                    out.add("?")
                            # Err: no value
                        elif adt == "std::option::Option" and rv.get("variant") == "Some":
                            ol = op_local(rv["ops"][0])
                            if ol is not None:
                                work.append(ol)
                            else:
                                out.add("?")
                        else:
                            out.add("?")
                    elif k == "use":
                        o = rv["op"]
                        if o.get("k") == "const":
                            out |= self.const_variant(o)
                        else:
                            p = op_place(o)
                            if p is None:
                                out.add("?")
                            elif not p.get("p"):
                                work.append(p["l"])
                            else:
                                # payload of a matched Result/ControlFlow (`?`) or an Option: follow the container
                                fields = [e for e in p["p"] if isinstance(e, dict)]
                                vs = [e.get("v") for e in fields if "v" in e]
                                if vs and vs[0] in ("Continue", "Ok", "Some") and all(e == "*" or isinstance(e, dict) for e in p["p"]):
                                    work.append(p["l"])
                                else:
                                    out.add("?")
                    elif k in ("cast",):
                        ol = op_local(rv["op"])
                        if ol is not None:
                            work.append(ol)
                        else:
                            out.add("?")
                    else:
                        out.add("?")
                else:  # call
                    t = x
                    cal = b.callee(t)
                    full = t.get("rfn_full") or t.get("fn_full") or cal
                    c = classify_conv(full)
                    if c is not None:
                        out |= set(c.split("|"))
                        continue
                    if cal.endswith("as std::ops::Try>::branch") or re.search(r"::(clone|to_owned|unwrap|expect|unwrap_or_default)$", cal) and t["args"]:
                        ol = op_local(t["args"][0])
                        if ol is not None:
                            work.append(ol)
                        else:
                            out.add("?")
                        continue
                    if "from_residual" in cal:
                        continue     # error path
                    if re.search(r"std::(result::Result|option::Option)::<.*>::(map|and_then|map_or|map_or_else)$", cal.split("::<")[0] + "::<>::" + cal.rsplit("::", 1)[1]) or \
                            re.search(r"^std::(result::Result|option::Option)::<[^>]*>::(map|and_then)$", t.get("fn") or ""):
                        cl = None
                        for a in t["args"][1:]:
                            al = op_local(a)
                            for k2, b2, s2, x2 in (defs.get(al, []) if al is not None else []):
                                if k2 == "stmt" and x2["rv"]["k"] == "agg" and x2["rv"].get("closure"):
                                    cl = x2["rv"]["closure"]
                        if cl and self.facts.has(cl):
                            out |= self.of(cl, depth + 1, scope)
                        else:
                            out.add("?")
                        continue
                    if re.search(r"^std::(result::Result|option::Option)::<[^>]*>::(map_err|ok_or|ok_or_else|or_else|unwrap_or_else)$", t.get("fn") or "") and t["args"]:
                        ol = op_local(t["args"][0])
                        if ol is not None:
                            work.append(ol)
                        else:
                            out.add("?")
                        continue
                    if cal.endswith("arithmetic::float_result"):
                        out.add("Float")
                        continue
                    dty = t.get("dty") or ""
                    if self.facts.has(cal) and (cal.startswith(scope) or cal.startswith("<" + scope)) and (dty == VALUE or dty.startswith("std::result::Result<value::value::Value") or dty.startswith("std::result::Result<" + VALUE)):
                        out |= self.of(cal, depth + 1, scope)
                        continue
                    out.add("?")
        self.memo[name] = out
        return out

    def const_variant(self, o):
        s = o.get("item") or o.get("static") or ""
        ty = o.get("ty") or ""
        if ty.endswith(VALUE) or ty == VALUE:
            m = re.search(r"Value::(\w+)$", s)
            if m:
                return {m.group(1)}
            if o.get("variant"):
                return {o["variant"]}
        return {"?"}
