"""C09 — short-circuit and conditional evaluation are exact (control dependence of operand evaluation)."""
from facts import op_local, op_place, flow_sources
from varflow import VarFlow, MOVED
import cfgq

OP_RESOLVE = "<compiler::expression::op::Op as compiler::expression::Expression>::resolve"
TRY_OR = "<value::value::Value as compiler::value::arithmetic::VrlValueArithmetic>::try_or"
IF_RESOLVE = "<compiler::expression::if_statement::IfStatement as compiler::expression::Expression>::resolve"
VALUE = "value::value::Value"
SHORT = {"Or", "And", "Err"}


def is_resolve_call(b, t):
    return (t.get("fn") or "") in ("compiler::expression::Expression::resolve",)


def field_of_self(b, t, argi=0):
    l = op_local(t["args"][argi])
    if l is None:
        return None
    r = cfgq.ref_root(b, l)
    if r and r[0] == 1 and r[1]:
        return r[1][0]
    return None


def falsy_possible(st, key):
    """may the Value in `key` be Null or Boolean(false) in abstract state st?"""
    v = st.get(key)
    if v is None:
        return True
    v = set(v) - {MOVED}
    if not v:
        return None  # moved: no knowledge here
    if "Null" in v:
        return True
    if "Boolean" in v:
        inner = st.get(key + " as Boolean.0")
        if inner is None or "false" in inner:
            return True
    return False


def truthy_possible(st, key):
    v = st.get(key)
    if v is None:
        return True
    v = set(v) - {MOVED}
    if not v:
        return None
    if v - {"Null", "Boolean"}:
        return True
    if "Boolean" in v:
        inner = st.get(key + " as Boolean.0")
        if inner is None or "true" in inner:
            return True
    return False


def run(chk):
    facts = chk.facts
    chk.explanation = (
        "Decides control dependence of operand evaluation (the 'side effects of unevaluated operands never happen' clause), not truth tables. "
        "R09a: P-VAR over Op::resolve keyed on self.opcode and on the left value — every evaluation of self.rhs reachable with opcode in {Or, And, Err} is "
        "either inside the closure handed to try_or, or only reachable in states where the left result is Err (for `??`) / cannot be null-or-false "
        "(for `&&`); the And short-circuit edge returns without touching rhs. R09b: in try_or the closure is invoked only in states where self is Null or "
        "Boolean(false), and the other edge returns self. R09c: IfStatement::resolve evaluates if_block only on the true edge and else_block (or the "
        "constant Ok(Null)) only on the false edge of one switch on the predicate boolean. Undecided: try_and on non-booleans, compile-time counterpart.")
    chk.assumptions += ["operands are evaluated only through Expression::resolve calls on self.lhs/self.rhs (enumerated on every run)"]

    # ---- R09a
    rid = "R09a"
    chk.rule(rid, "Op::resolve: rhs evaluation under Or/And/Err is guarded by the left value / deferred to try_or's closure", floor=4)
    b = chk.anchor(OP_RESOLVE, rid)
    if b is not None:
        lhs_calls = [(bb, t) for bb, t in b.calls() if is_resolve_call(b, t) and field_of_self(b, t) == "lhs"]
        rhs_calls = [(bb, t) for bb, t in b.calls() if is_resolve_call(b, t) and field_of_self(b, t) == "rhs"]
        lhs_results = {t["dest"]["l"] for bb, t in lhs_calls}

        def lhs_derived(l):
            return any(s[0] == "call" and s[1] in {bb for bb, t in lhs_calls} for s in flow_sources(b, l))
        value_locals = [i for i, l in enumerate(b.locals) if l["ty"] == VALUE and lhs_derived(i)]
        result_locals = [i for i, l in enumerate(b.locals) if l["ty"].startswith("std::result::Result<value::value::Value, compiler::expression_error") and i in lhs_results]
        vf = VarFlow(facts, b, extra_locals=value_locals + result_locals)
        at_site = {}

        def on_term(bb, t, st):
            if t["k"] == "call" and any(bb == x[0] for x in rhs_calls):
                at_site.setdefault(bb, []).append(dict(st))
        vf.run(on_term=on_term)
        opkey = vf.key({"l": 1, "p": ["*", {"f": "opcode", "ty": ""}]})
        for bb, t in rhs_calls:
            states = at_site.get(bb, [])
            d = {"fn": OP_RESOLVE, "rhs_resolve_at": "%s:%s" % (b.file, t["ln"]), "states": len(states)}
            if not states:
                chk.instance(rid, d, ok=None)
                chk.note(rid, "rhs resolve at line %s unreachable in the abstract interpretation" % t["ln"])
                continue
            bad = None
            ops_seen = set()
            for st in states:
                ops = st.get(opkey)
                ops = set(ops) if ops is not None else {"<any>"}
                ops_seen |= ops
                sc = ops & SHORT if "<any>" not in ops else set(SHORT)
                for oc in sc:
                    if oc == "Err":
                        okk = any(st.get("_%d" % r) is not None and set(st.get("_%d" % r)) - {MOVED} == {"Err"} for r in result_locals)
                        if not okk:
                            bad = "`??`: right operand evaluated while the left result may be Ok"
                    elif oc == "And":
                        known = [falsy_possible(st, "_%d" % v) for v in value_locals if ("_%d" % v) in st]
                        known = [k for k in known if k is not None]
                        if not known or any(known):
                            bad = "`&&`: right operand evaluated while the left value may be null/false"
                    elif oc == "Or":
                        known = [truthy_possible(st, "_%d" % v) for v in value_locals if ("_%d" % v) in st]
                        known = [k for k in known if k is not None]
                        if not known or any(known):
                            bad = "`||`: right operand evaluated while the left value may be truthy"
            d["opcodes_at_site"] = sorted(ops_seen)
            if bad:
                chk.instance(rid, d, ok=False)
                chk.violation(rid, b.file, OP_RESOLVE, "rhs resolve #%d unguarded" % rhs_calls.index((bb, t)),
                              bad + " (side effects of an operand that must not run)", detail=d, loc=d["rhs_resolve_at"])
            else:
                chk.instance(rid, d, ok=True)
        # closures that evaluate rhs: only handed to try_or
        for cn in facts.closures_of(OP_RESOLVE):
            cb = facts.body(cn)
            evals = [t for bb, t in cb.calls() if is_resolve_call(cb, t)]
            if not evals:
                continue
            users = []
            for bi, si, s in b.iter_stmts():
                if s["rv"]["k"] == "agg" and s["rv"].get("closure") == cn:
                    cl = s["d"]["l"]
                    for bb2, t2 in b.calls():
                        if any(op_local(a) == cl or (op_local(a) is not None and cl in cfgq.ref_chain(b, op_local(a))) for a in t2["args"]):
                            users.append(b.callee(t2))
            d = {"closure": cn, "handed_to": users}
            ok = bool(users) and all(u == TRY_OR for u in users)
            chk.instance(rid, d, ok=ok)
            if not ok:
                chk.violation(rid, b.file, OP_RESOLVE, "operand-evaluating closure handed to %s" % (users[:1] or ["nothing"])[0],
                              "a closure that evaluates an operand is passed to a callee other than try_or, whose invocation discipline is not checked", detail=d)
        # lhs evaluated exactly once on every path (no operand evaluated twice)
        d = {"fn": OP_RESOLVE, "lhs_resolve_sites": len(lhs_calls), "rhs_resolve_sites": len(rhs_calls)}
        chk.instance(rid, d, ok=bool(lhs_calls))

    # ---- R09b
    rid = "R09b"
    chk.rule(rid, "try_or invokes the right-operand closure only when self is Null/Boolean(false), else returns self", floor=2)
    b = chk.anchor(TRY_OR, rid)
    if b is not None:
        inv = [(bb, t) for bb, t in b.calls() if "::call_mut" in b.callee(t) or "::call_once" in b.callee(t) or "::call" == b.callee(t)[-6:]]
        vf = VarFlow(facts, b, extra_locals=[1])
        st_at = {}

        def on_term2(bb, t, st):
            if t["k"] == "call" and any(bb == x[0] for x in inv):
                st_at.setdefault(bb, []).append(dict(st))
        vf.run(on_term=on_term2)
        for bb, t in inv:
            sts = st_at.get(bb, [])
            bad = any(truthy_possible(st, "_1") is not False for st in sts) or not sts
            d = {"fn": TRY_OR, "closure_call_at": "%s:%s" % (b.file, t["ln"]), "states": len(sts)}
            chk.instance(rid, d, ok=not bad)
            if bad:
                chk.violation(rid, b.file, TRY_OR, "closure invoked on truthy self",
                              "`||`: the right operand can be evaluated although the left value is neither null nor false", detail=d, loc=d["closure_call_at"])
        # the truthy edge returns Ok(self) without calling the closure
        okret = False
        for bi, si, s in cfgq.agg_sites(b, "std::result::Result", "Ok"):
            if s["d"]["l"] == 0 and ("arg", 1) in flow_sources(b, op_local(s["rv"]["ops"][0])):
                okret = True
        d = {"fn": TRY_OR, "returns_self_on_truthy": okret, "closure_invocations": len(inv)}
        chk.instance(rid, d, ok=okret and bool(inv))
        if not (okret and inv):
            chk.violation(rid, b.file, TRY_OR, "try_or shape", "try_or no longer returns self on the truthy edge / never invokes the closure", detail=d)

    # ---- R09c
    rid = "R09c"
    chk.rule(rid, "IfStatement::resolve: one switch on the predicate boolean; if_block only on true, else_block/Ok(Null) only on false", floor=3)
    b = chk.anchor(IF_RESOLVE, rid)
    if b is not None:
        pred_sw = None
        for bi, sw in b.iter_terms("switch"):
            if sw.get("ty") != "bool":
                continue
            l = op_local(sw["op"])
            src = flow_sources(b, l) if l is not None else set()
            tb = [s for s in src if s[0] in ("call", "via") and s[2].endswith("VrlValueConvert>::try_boolean")]
            for s in tb:
                tcall = b.term(s[1])
                al = op_local(tcall["args"][0])
                asrc = flow_sources(b, al) if al is not None else set()
                if any(x[0] in ("call", "via") and x[2].endswith("Predicate as compiler::expression::Expression>::resolve") for x in asrc):
                    pred_sw = (bi, sw)
        if pred_sw is None:
            chk.fail_closed(rid, "IfStatement::resolve: switch on predicate.resolve()?.try_boolean()? not found")
        else:
            sbb, sw = pred_sw
            false_bb = [tgt for val, tgt in sw["targets"] if val == "0"]
            false_bb = false_bb[0] if false_bb else None
            true_bb = sw["otherwise"] if false_bb is not None else None
            r_true = b.reachable_from_edges([true_bb], avoid=[sbb]) if true_bb is not None else set()
            r_false = b.reachable_from_edges([false_bb], avoid=[sbb]) if false_bb is not None else set()
            ifs = [(bb, t) for bb, t in b.calls() if b.callee(t).endswith("Block as compiler::expression::Expression>::resolve") and field_of_self(b, t) == "if_block"]
            d = {"fn": IF_RESOLVE, "if_block_sites": ["%s:%s" % (b.file, t["ln"]) for bb, t in ifs]}
            ok = bool(ifs) and all(bb in r_true and bb not in r_false and b.dominates(sbb, bb) for bb, t in ifs)
            chk.instance(rid, d, ok=ok)
            if not ok:
                chk.violation(rid, b.file, IF_RESOLVE, "if_block evaluation not confined to the true edge",
                              "the `if` block can run when the predicate is false (or is evaluated before the predicate)", detail=d)
            # else side: every use of self.else_block is on the false edge only
            else_uses = []
            for bi, si, s in b.iter_stmts():
                rv = s["rv"]
                if rv["k"] == "ref" and "else_block" in [e.get("f") for e in rv["p"].get("p", []) if isinstance(e, dict)]:
                    else_uses.append(bi)
            d = {"fn": IF_RESOLVE, "else_block_uses_in_blocks": else_uses}
            ok = bool(else_uses) and all(x in r_false and x not in r_true for x in else_uses)
            chk.instance(rid, d, ok=ok)
            if not ok:
                chk.violation(rid, b.file, IF_RESOLVE, "else_block evaluation not confined to the false edge",
                              "the `else` block can run when the predicate is true", detail=d)
            # missing else yields Null: map_or default is Ok(Value::Null) and closure resolves the block
            mo = [(bb, t) for bb, t in b.calls() if b.callee(t) == "std::option::Option::<T>::map_or" and bb in r_false]
            okn = False
            for bb, t in mo:
                src = flow_sources(b, op_local(t["args"][1])) if op_local(t["args"][1]) is not None else set()
                if any(s[0] == "agg" and s[2] == "value::value::Value" and s[3] == "Null" for s in src) and \
                   any(s[0] == "agg" and s[2] == "std::result::Result" and s[3] == "Ok" for s in src):
                    okn = True
            if not mo:
                # alternative shape: explicit match with Value::Null aggregate on the None edge
                for bi, si, s in cfgq.agg_sites(b, "value::value::Value", "Null"):
                    if bi in r_false:
                        okn = True
            d = {"fn": IF_RESOLVE, "missing_else_yields_Ok_Null": okn}
            chk.instance(rid, d, ok=okn)
            if not okn:
                chk.violation(rid, b.file, IF_RESOLVE, "missing else does not yield null",
                              "an `if` without `else` whose predicate is false does not evaluate to Ok(null)", detail=d)
