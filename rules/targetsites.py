"""Shared enumeration of `dyn Target` call sites and classification of how their results are consumed."""
import re
from facts import op_local, op_place, uses_of

TARGET_METHODS = ("target_insert", "target_get", "target_get_mut", "target_remove")
DYN_PREFIX = "dyn compiler::target::Target::"

CHAIN = re.compile(r"::(ok|flatten|cloned|copied|map|and_then|as_ref|as_deref|clone|filter|or|or_else|then|then_some|inspect)$")
PANICKY = re.compile(r"::(unwrap|expect|unwrap_err|expect_err|unwrap_unchecked)$")
SOFT = re.compile(r"::(unwrap_or|unwrap_or_default|unwrap_or_else|is_some|is_none|is_ok|is_err|is_some_and|map_or|map_or_else|ok_or|ok_or_else|into|from)$")


def dyn_target_sites(facts):
    """[(body, bb, term, method)] for every call through `dyn Target`"""
    out = []
    for i in facts.index:
        hit = [c for c in i["callees"] if c.startswith(DYN_PREFIX)]
        if not hit:
            continue
        b = facts.body(i["name"])
        for bb, t in b.calls():
            if t.get("dyn") and (t.get("fn") or "").startswith("compiler::target::Target::"):
                out.append((b, bb, t, t["fn"].rsplit("::", 1)[1]))
    return out


def consumption(b, bb, t, max_depth=8):
    """follow the call's result forward; returns list of (kind, callee/desc, line)
    kinds: ok-chain, drop, match, panicky, soft, try, other"""
    out = []
    seen = set()
    work = [(t["dest"]["l"], 0)]
    while work:
        l, depth = work.pop()
        if l in seen or depth > max_depth:
            continue
        seen.add(l)
        for kind, ubb, si, x in uses_of(b, l):
            if kind == "stmt":
                rv = x["rv"]
                if rv["k"] == "discr":
                    out.append(("match", "discriminant test", x.get("ln")))
                elif rv["k"] in ("use", "ref", "cast"):
                    src = op_place(rv["op"]) if rv["k"] != "ref" else rv["p"]
                    # a payload moved out under a downcast belongs to a match arm: the match itself is the consumer
                    if src is not None and any(isinstance(e, dict) and "v" in e for e in src.get("p", [])):
                        continue
                    work.append((x["d"]["l"], depth + 1))
                elif rv["k"] == "agg":
                    work.append((x["d"]["l"], depth + 1))
            elif kind == "drop":
                out.append(("drop", "Drop terminator", x.get("ln")))
            elif kind == "call":
                cal = b.callee(x)
                if cal == "std::mem::drop":
                    out.append(("drop", cal, x["ln"]))
                elif PANICKY.search(cal):
                    out.append(("panicky", cal, x["ln"]))
                elif cal.endswith("as std::ops::Try>::branch"):
                    out.append(("try", cal, x["ln"]))
                elif CHAIN.search(cal):
                    out.append(("ok-chain", cal, x["ln"]))
                    work.append((x["dest"]["l"], depth + 1))
                elif SOFT.search(cal):
                    out.append(("soft", cal, x["ln"]))
                else:
                    out.append(("other", cal, x["ln"]))
    return out
