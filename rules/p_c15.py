"""C15 — read-only paths are never modified (who may mutate the target, and each mutator is guarded at compile time)."""
from facts import op_local, op_place, flow_sources, forward_taint
import cfgq
import targetsites as ts

ASSIGN_NEW = "compiler::expression::assignment::Assignment::new"
VERIFY_MUTABLE = "compiler::expression::assignment::verify_mutable"
IS_RO_CFG = "compiler::compile_config::CompileConfig::is_read_only_path"
IS_RO_CTX = "compiler::function::FunctionCompileContext::is_read_only_path"
VARIANT = "compiler::expression::assignment::Variant"
ATARGET = "compiler::expression::assignment::Target"
DEL_COMPILE = "<stdlib::del::Del as compiler::function::Function>::compile"
DELFN = "stdlib::del::DelFn"
QUERY_EXT = "compiler::expression::query::Query::external_path"
TARGET_MUT = "compiler::context::Context::<'a>::target_mut"

# who may call the mutating half of `dyn Target`, and the compile-time guard that covers it
MUTATORS = {
    "compiler::expression::assignment::Target::insert": "guarded by verify_mutable in Assignment::new (R15b)",
    "stdlib::del::del": "guarded by the read-only test in Del::compile (R15c)",
}
# functions that take the mutable target handle but only read through it
TARGET_MUT_READERS = {
    "stdlib::exists::exists": "uses target_mut() but only calls target_get (re-checked: its dyn calls are listed by R15a)",
}
MUTATING = ("target_insert", "target_remove", "target_get_mut")


def run(chk):
    facts = chk.facts
    chk.explanation = (
        "Decides who may mutate the event target and that each mutator is guarded at compile time; not the path algebra of "
        "is_read_only_path. R15a: the callers of `dyn Target::{target_insert,target_remove,target_get_mut}` (and of Context::target_mut) are exactly "
        "assignment::Target::insert and stdlib::del::del (+ frozen read-only users). R15b: in Assignment::new every assignment::Target moved into a "
        "constructed Variant (single target; ok and err of the infallible form) was passed to verify_mutable on a dominating block and the result was "
        "`?`-checked; verify_mutable's External arm calls CompileConfig::is_read_only_path and its true edge cannot reach Ok. R15c: Del::compile builds "
        "DelFn only when the read-only test on query.external_path() is false or there is no external path; DelFn/Variant<Target,_> are constructed nowhere "
        "else. Undecided: negative-index / parent-path aliasing in is_read_only_path, mutation through Value aliases.")
    chk.assumptions += ["the embedder's Target mutates only the path it is given", "closures and function arguments are compiled through the same "
                        "Compiler::compile_assignment / Function::compile entry points"]

    rid = "R15a"
    chk.rule(rid, "only assignment::Target::insert and del::del call mutating `dyn Target` methods / Context::target_mut", floor=3)
    sites = ts.dyn_target_sites(facts)
    for b, bb, t, method in sites:
        if method not in MUTATING:
            continue
        d = {"fn": b.name, "at": "%s:%s" % (b.file, t["ln"]), "method": method, "guard": MUTATORS.get(b.name)}
        if b.name in MUTATORS:
            chk.instance(rid, d, ok=True)
        else:
            chk.instance(rid, d, ok=False)
            chk.violation(rid, b.file, b.name, "unguarded target mutation via %s" % method,
                          "`dyn Target::%s` is called from a function that is not covered by a compile-time read-only check; add the caller and its "
                          "guard to the MUTATORS table after review" % method, detail=d, loc=d["at"])
    if facts.has(TARGET_MUT):
        callers = sorted(set(c.split("::{closure")[0] for c in facts.callers(TARGET_MUT)))
        d = {"callee": TARGET_MUT, "callers": callers}
        bad = [c for c in callers if c not in MUTATORS and c not in TARGET_MUT_READERS]
        # readers must really not mutate
        for c in callers:
            if c in TARGET_MUT_READERS:
                for b, bb, t, method in sites:
                    if b.name == c and method in MUTATING:
                        bad.append(c)
        chk.instance(rid, d, ok=not bad)
        for c in bad:
            cb = facts.body(c)
            chk.violation(rid, cb.file, c, "Context::target_mut obtained", "a new function obtains the mutable target handle outside the guarded mutators",
                          detail=d, loc="%s:%d" % (cb.file, cb.line))
    else:
        chk.fail_closed(rid, "anchor not found: %s" % TARGET_MUT)

    # ---- R15b
    rid = "R15b"
    chk.rule(rid, "Assignment::new: every Target in a constructed Variant passed verify_mutable (dominating, `?`-checked); "
                  "verify_mutable rejects read-only external paths", floor=5)
    b = chk.anchor(ASSIGN_NEW, rid)
    if b is not None:
        vm_calls = cfgq.calls_to(b, lambda c: c == VERIFY_MUTABLE)
        verified = {}   # local -> call bb
        for bb, t in vm_calls:
            l = op_local(t["args"][0])
            chain = cfgq.ref_chain(b, l) if l is not None else []
            # result must be `?`-checked: flows into Try::branch
            res = t["dest"]["l"]
            checked = any(u[0] == "call" and b.callee(u[3]).endswith("as std::ops::Try>::branch") for u in __import__("facts").uses_of(b, res))
            for x in chain[1:]:
                verified[x] = (bb, checked)
        n_targets = 0
        wrappers = {}
        for bi, si, s in cfgq.agg_sites(b, VARIANT):
            if "assignment::Target" not in b.local_ty(s["d"]["l"]):
                continue
            fn = s["rv"].get("fnames", [])
            for name, op in zip(fn, s["rv"]["ops"]):
                if name not in ("target", "ok", "err"):
                    continue
                n_targets += 1
                l = op_local(op)
                chain = cfgq.ref_chain(b, l) if l is not None else []
                hit = [verified[x] for x in chain if x in verified]
                d = {"fn": ASSIGN_NEW, "variant": s["rv"].get("variant"), "field": name, "at": "%s:%s" % (b.file, s.get("ln")),
                     "verify_mutable_dominates": bool(hit) and b.dominates(hit[0][0], bi), "result_checked": bool(hit) and hit[0][1]}
                if not hit and l is not None:
                    # the target may come out of a helper that verifies it on every Ok path (a verifying wrapper): summarise the helper
                    oc = origin_call(b, l)
                    if oc is not None:
                        if oc not in wrappers:
                            wrappers[oc] = verifying_wrapper(facts, oc)
                        d["produced_by"] = oc
                        d["producer_verifies_on_every_ok_path"] = wrappers[oc]
                        if wrappers[oc]:
                            d["verify_mutable_dominates"] = d["result_checked"] = True
                ok = d["verify_mutable_dominates"] and d["result_checked"]
                chk.instance(rid, d, ok=ok)
                if not ok:
                    chk.violation(rid, b.file, ASSIGN_NEW, "Variant::%s.%s not verified mutable" % (s["rv"].get("variant"), name),
                                  "the `%s` target of a %s assignment reaches the compiled assignment without a checked verify_mutable call: a "
                                  "read-only path can be assigned" % (name, s["rv"].get("variant")), detail=d, loc=d["at"])
        if n_targets < 3:
            chk.fail_closed(rid, "Assignment::new constructs fewer Variant targets than expected (%d < 3)" % n_targets)
    vb = chk.anchor(VERIFY_MUTABLE, rid)
    if vb is not None:
        ro = cfgq.calls_to(vb, lambda c: c == IS_RO_CFG)
        sw = list(cfgq.discr_switches_on(facts, vb, lambda p, adt: adt == ATARGET))
        d = {"fn": VERIFY_MUTABLE, "is_read_only_path_calls": len(ro), "target_tests": len(sw)}
        ok = False
        if ro and sw:
            rbb = ro[0][0]
            ext = sw[0][3].get("External")
            edges = cfgq.bool_switch_after_call(vb, rbb)
            ok_blocks = [bi for bi, si, s in cfgq.agg_sites(vb, "std::result::Result", "Ok") if s["d"]["l"] == 0]
            err_blocks = [bi for bi, si, s in cfgq.agg_sites(vb, "std::result::Result", "Err") if s["d"]["l"] == 0]
            if ext is not None and edges is not None:
                true_bb, false_bb = edges
                # External edge must pass the test; the true edge must not reach Ok and must reach Err
                ext_passes = not cfgq.reaches(vb, [ext], ok_blocks, avoid=[rbb])
                true_rejects = not cfgq.reaches(vb, [true_bb], ok_blocks) and cfgq.reaches(vb, [true_bb], err_blocks)
                # the tested path is the External payload
                pl = op_local(ro[0][1]["args"][1])
                payload = any(x == sw[0][1]["l"] or x == 1 for x in cfgq.ref_chain(vb, pl)) if pl is not None else False
                d.update({"external_edge_passes_test": ext_passes, "true_edge_rejects": true_rejects, "tests_the_target_payload": payload})
                ok = ext_passes and true_rejects and payload
        chk.instance(rid, d, ok=ok)
        if not ok:
            chk.violation(rid, vb.file, VERIFY_MUTABLE, "read-only rejection",
                          "verify_mutable does not reject (return Err for) every external target for which CompileConfig::is_read_only_path is true",
                          detail=d)
    # Variant<Target, _> / Assignment constructed only in Assignment::new (besides Clone)
    ctor_ok = True
    ctors = []
    for n in facts.grep('"adt":"%s"' % VARIANT):
        fb = facts.body(n)
        for bi, si, s in cfgq.agg_sites(fb, VARIANT):
            if "assignment::Target" in fb.local_ty(s["d"]["l"]) or "Variant<T, U>" in fb.local_ty(s["d"]["l"]):
                ctors.append(n)
    ctors = sorted(set(ctors))
    allowed = {ASSIGN_NEW, "<compiler::expression::assignment::Variant<T, U> as std::clone::Clone>::clone"}
    d = {"constructors_of_Variant<Target,_>": ctors}
    bad = [c for c in ctors if c not in allowed]
    chk.instance(rid, d, ok=not bad)
    for c in bad:
        cb = facts.body(c)
        chk.violation(rid, cb.file, c, "Variant<Target,_> constructed", "a compiled assignment is constructed outside Assignment::new, bypassing verify_mutable",
                      detail=d, loc="%s:%d" % (cb.file, cb.line))

    from common import run_witness
    run_witness(chk, "R15w", "Context::target() is a shared reference: mutation through it is E0596")

    config_rules(chk)

    # ---- R15c
    rid = "R15c"
    chk.rule(rid, "Del::compile builds DelFn only past the read-only test on query.external_path(); DelFn is built nowhere else", floor=2)
    b = chk.anchor(DEL_COMPILE, rid)
    if b is not None:
        ro = cfgq.calls_to(b, lambda c: c == IS_RO_CTX)
        ext = cfgq.calls_to(b, lambda c: c == QUERY_EXT)
        aggs = cfgq.agg_sites(b, DELFN)
        d = {"fn": DEL_COMPILE, "is_read_only_path_calls": len(ro), "external_path_calls": len(ext), "DelFn_constructions": len(aggs)}
        ok = False
        if ro and ext and aggs:
            abb = aggs[0][0]
            rbb = ro[0][0]
            ebb = ext[0][0]
            edges = cfgq.bool_switch_after_call(b, rbb)
            # the tested path derives from external_path() of the query that goes into DelFn
            pl = op_local(ro[0][1]["args"][1])
            tested_from_ext = pl is not None and any(s[0] in ("call", "via") and s[2] == QUERY_EXT for s in flow_sources(b, pl))
            q_local = op_local(ext[0][1]["args"][0])
            q_chain = cfgq.ref_chain(b, q_local) if q_local is not None else []
            agg_q = None
            for name, op in zip(aggs[0][2]["rv"].get("fnames", []), aggs[0][2]["rv"]["ops"]):
                if name == "query":
                    agg_q = op_local(op)
            same_query = agg_q is not None and (agg_q in q_chain or bool(set(cfgq.ref_chain(b, agg_q)) & set(q_chain)))
            # Some(external path) edge must pass the test
            sw = [x for x in cfgq.discr_switches_on(facts, b, lambda p, adt: adt == "std::option::Option" and p["l"] == ext[0][1]["dest"]["l"])]
            some_passes = bool(sw) and all(not cfgq.reaches(b, [x[3].get("Some", x[4])], [abb], avoid=[rbb]) for x in sw)
            true_blocked = edges is not None and not cfgq.reaches(b, [edges[0]], [abb])
            d.update({"tested_path_from_external_path": tested_from_ext, "same_query": same_query, "some_edge_passes_test": some_passes,
                      "true_edge_cannot_build_DelFn": true_blocked, "external_path_dominates_DelFn": b.dominates(ebb, abb)})
            ok = tested_from_ext and same_query and some_passes and true_blocked and b.dominates(ebb, abb)
        chk.instance(rid, d, ok=ok)
        if not ok:
            chk.violation(rid, b.file, DEL_COMPILE, "DelFn built without read-only rejection",
                          "Del::compile can construct DelFn for an external path that the configuration marks read-only", detail=d)
    ctors = []
    for n in facts.grep('"adt":"%s"' % DELFN):
        fb = facts.body(n)
        if cfgq.agg_sites(fb, DELFN):
            ctors.append(n)
    allowed = {DEL_COMPILE, "<stdlib::del::DelFn as std::clone::Clone>::clone"}
    bad = [c for c in ctors if c not in allowed]
    d = {"constructors_of_DelFn": sorted(ctors)}
    chk.instance(rid, d, ok=not bad)
    for c in bad:
        cb = facts.body(c)
        chk.violation(rid, cb.file, c, "DelFn constructed", "DelFn is constructed outside Del::compile, bypassing the read-only check", detail=d)


SET_RO = "compiler::compile_config::CompileConfig::set_read_only_path"
IS_RO = "compiler::compile_config::CompileConfig::is_read_only_path"
CAN_START = "path::owned::OwnedTargetPath::can_start_with"


def config_rules(chk):
    """R15d/R15e: the read-only registry itself: registration is unconditional; the lookup has its three clauses"""
    facts = chk.facts
    rid = "R15d"
    chk.rule(rid, "set_read_only_path inserts {path, recursive} built from its arguments on every path to return", floor=1)
    b = chk.anchor(SET_RO, rid)
    if b is not None:
        ins = [(bb, t) for bb, t in b.calls() if b.callee(t).endswith("BTreeSet::<compiler::compile_config::ReadOnlyPath>::insert")
               or (b.callee(t).startswith("std::collections::BTreeSet") and b.callee(t).endswith("::insert"))]
        ok = False
        why = None
        if ins:
            ibb, it = ins[0]
            byp = [r for r in b.return_blocks() if r in b.reachable(0, avoid=[ibb])]
            src = flow_sources(b, op_local(it["args"][1]))
            from_args = ("arg", 2) in src and ("arg", 3) in src
            recv = cfgq.ref_root(b, op_local(it["args"][0]))
            ok = not byp and from_args and bool(recv) and recv[0] == 1 and "read_only_paths" in recv[1]
            why = "return reachable without insert" if byp else (None if from_args else "inserted entry not built from (path, recursive)")
        d = {"fn": SET_RO, "inserts": len(ins), "problem": why}
        chk.instance(rid, d, ok=ok)
        if not ok:
            chk.violation(rid, b.file, SET_RO, "registration not unconditional",
                          "set_read_only_path can return without registering the (path, recursive) it was given (%s): a later recursive registration "
                          "can be silently dropped" % (why or "no insert into read_only_paths"), detail=d)
    rid = "R15e"
    chk.rule(rid, "is_read_only_path: parent-of-entry, recursive-descendant and exact-match clauses each return true; fall-through returns false", floor=3)
    b = chk.anchor(IS_RO, rid)
    if b is None:
        return
    fam = [facts.body(n) for n in facts.family(IS_RO)]

    def origin(fb, l):
        """'arg' if the operand derives from the queried path (parameter 2 / a capture of it), 'entry' if from an iterated ReadOnlyPath"""
        r = cfgq.ref_root(fb, l) if l is not None else None
        chain = cfgq.ref_chain(fb, l) if l is not None else []
        if r and r[1] and "path" in r[1]:
            return "entry"
        if any(x == 2 for x in chain) and fb.name == IS_RO:
            return "arg"
        if r and fb.kind == "closure":
            return "arg" if not r[1] or r[1][0].isdigit() and "path" not in r[1] else "entry"
        return "?"
    true_blocks = {}
    for fb in fam:
        true_blocks[fb.name] = {bi for bi, si, s in fb.iter_stmts() if s["d"]["l"] == 0 and s["rv"]["k"] == "use" and s["rv"]["op"].get("bool") is True}
    clauses = {"parent-of-entry": False, "recursive-descendant": False, "exact-match": False}
    for fb in fam:
        rec_reads = [bi for bi, si, s in fb.iter_stmts() if s["rv"]["k"] == "use" and op_place(s["rv"]["op"]) is not None
                     and "recursive" in [e.get("f") for e in op_place(s["rv"]["op"]).get("p", []) if isinstance(e, dict)]]
        for bb, t in fb.calls():
            cal = fb.callee(t)
            if cal == CAN_START:
                o0, o1 = origin(fb, op_local(t["args"][0])), origin(fb, op_local(t["args"][1]))
                edges = cfgq.bool_switch_after_call(fb, bb)
                leads_true = edges is not None and (edges[0] in true_blocks[fb.name] or cfgq.reaches(fb, [edges[0]], true_blocks[fb.name], avoid=[edges[1]])
                                                    or t["dest"]["l"] == 0)
                if o0 == "entry" and o1 == "arg" and leads_true:
                    clauses["parent-of-entry"] = True
                if o0 == "arg" and o1 == "entry" and leads_true and (rec_reads and any(fb.dominates(r, bb) for r in rec_reads) or fb.kind == "closure"):
                    clauses["recursive-descendant"] = True
            elif cal.endswith("::eq") and "OwnedTargetPath" in (t.get("rfn_full") or t.get("fn_full") or ""):
                edges = cfgq.bool_switch_after_call(fb, bb)
                leads_true = edges is not None and (edges[0] in true_blocks[fb.name] or cfgq.reaches(fb, [edges[0]], true_blocks[fb.name], avoid=[edges[1]])
                                                    or t["dest"]["l"] == 0)
                if leads_true:
                    clauses["exact-match"] = True
    for cname, ok in clauses.items():
        d = {"fn": IS_RO, "clause": cname, "present": ok}
        chk.instance(rid, d, ok=ok)
        if not ok:
            chk.violation(rid, b.file, IS_RO, "clause `%s` missing" % cname,
                          "is_read_only_path no longer reports a path read-only through its %s clause: assignments the configuration forbids are accepted" % cname,
                          detail=d)


def origin_call(b, l, depth=4):
    """the local function whose (`?`-unwrapped) result the value in `l` is, or None"""
    for _ in range(depth):
        chain = cfgq.ref_chain(b, l)
        d = cfgq.single_def(b, chain[-1])
        if d is None or d[0] != "call":
            return None
        t = d[3]
        cal = b.callee(t)
        if cal.endswith("as std::ops::Try>::branch"):
            l = op_local(t["args"][0])
            if l is None:
                return None
            continue
        return cal
    return None


def verifying_wrapper(facts, name):
    """True iff `name` is a local function returning Result<assignment::Target, _> in which every `Ok(target)` it returns is dominated by a
    `?`-checked verify_mutable(&target, ..) call (Min et al.: a wrapper acquires the guarantee when all its success paths hold it)."""
    import facts as F
    if not facts.has(name):
        return False
    wb = facts.body(name)
    if "assignment::Target" not in wb.local_ty(0) or "Result<" not in wb.local_ty(0):
        return False
    verified = {}
    for bb, t in cfgq.calls_to(wb, lambda c: c == VERIFY_MUTABLE):
        l = op_local(t["args"][0])
        res = t["dest"]["l"]
        checked = any(u[0] == "call" and wb.callee(u[3]).endswith("as std::ops::Try>::branch") for u in F.uses_of(wb, res))
        if l is None or not checked:
            continue
        for x in cfgq.ref_chain(wb, l)[1:]:
            verified.setdefault(x, []).append(bb)
    oks = [(bi, s) for bi, si, s in cfgq.agg_sites(wb, "std::result::Result", "Ok") if s["d"]["l"] == 0 and not s["d"].get("p")]
    if not oks:
        return False
    for bi, s in oks:
        l = op_local(s["rv"]["ops"][0])
        if l is None:
            return False
        chain = cfgq.ref_chain(wb, l)
        if not any(any(wb.dominates(vbb, bi) for vbb in verified.get(x, [])) for x in chain):
            return False
    # no other way to produce the return value (e.g. forwarding another call's Result unchanged)
    for kind, bb, si, x in wb.defs().get(0, []):
        if kind == "call":
            cal = wb.callee(x)
            if not cal.endswith("FromResidual<std::result::Result<std::convert::Infallible, E>>>::from_residual") and "from_residual" not in cal:
                return False
        elif kind == "stmt" and x["rv"]["k"] != "agg":
            return False
    return True
