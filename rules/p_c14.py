"""C14 — evaluation is deterministic and thread-safe (effect exemption, shared state, hash-order, clear())."""
import re
from facts import op_local, flow_sources
import fmap
import cfgq

EXEMPT = {  # named in the property statement
    "now": "CLOCK", "random_bool": "RNG", "random_bytes": "RNG", "random_float": "RNG", "random_int": "RNG", "uuid_v4": "RNG",
    "uuid_v7": "RNG+CLOCK", "get_hostname": "HOST", "get_env_var": "ENV", "dns_lookup": "NET", "reverse_dns": "NET", "http_request": "NET",
}
# frozen exceptions, one line of reason each (process-constant reads)
FROZEN = {
    ("get_timezone_name", "HOST"): "OS zone name, read only under TimeZone::Local; constant within a process",
    ("get_timezone_name", "CLOCK"): "Local::now().offset() fallback when the OS zone name is unavailable; same reason",
    ("validate_json_schema", "FS"): "schema file named by a literal argument, read on first use and cached; environment input, not program state",
    ("parse_proto", "FS"): "descriptor file read once in compile()",
    ("encode_proto", "FS"): "descriptor file read once in compile()",
    ("parse_etld", "FS"): "optional PSL file read once in compile()",
    ("parse_groks", "FS"): "alias source files read once in compile()",
    ("http_request", "NET"): "exempt by the property (network lookups)",
}
NONDET = ("CLOCK", "RNG", "ENV", "HOST", "NET", "FS")

MUT = re.compile(r"Mutex|RwLock|RefCell|Cell<|Atomic|UnsafeCell")
SHARED_OK = {
    "stdlib::validate_json_schema::non_wasm::SCHEMA_CACHE":
        "memoises compiled schemas by file path behind an RwLock; a hit returns the same Arc<Validator> a miss would build from the same file",
}

HASH = re.compile(r"(hash::map::|hash_map::|collections::)Hash(Map|Set)|hashbrown")
ITER = re.compile(r"::(iter|keys|values|into_keys|into_values|drain|iter_mut|values_mut|retain|into_iter|extract_if|difference|union|intersection)$")
# reviewed hash-iteration sites: function -> why the iteration order cannot reach a result/diagnostic
HASH_OK = {
    "compiler::conversion::parse_check_conversion_map": "embedder API; keys only compared against another set",
    "compiler::conversion::parse_conversion_map": "embedder API; entries re-inserted into a map",
    "compiler::function::ArgumentList::keywords": "result only used for `contains` membership in Builder::new",
    "compiler::state::LocalEnv::variable_idents": "SORTED: the only consumer (Variable::new) sorts the collected identifiers before use — re-checked structurally",
    "compiler::state::LocalEnv::apply_child_scope": "entries inserted into another map keyed by distinct identifiers",
    "compiler::state::LocalEnv::merge": "entries inserted into another map keyed by distinct identifiers",
    "stdlib::parse_json::parse_layer": "distinct JSON keys re-inserted into an ordered map; the document was validated as a whole before",
    "stdlib::tally::tally": "distinct keys collected into an ordered ObjectMap",
    "stdlib::unflatten::do_unflatten_entries": "distinct group keys collected into an ordered ObjectMap",
    "protobuf::parse::proto_to_value": "distinct protobuf map keys collected into an ordered ObjectMap",
}
RUNTIME_STATE = "compiler::state::RuntimeState"
STATE_CLEAR = "compiler::state::RuntimeState::clear"
RUNTIME_CLEAR = "compiler::runtime::Runtime::clear"


def run(chk):
    facts = chk.facts
    chk.explanation = (
        "Decides four structural clauses of determinism/thread-safety, not determinism of third-party code. R14a: the stdlib functions whose resolve or "
        "compile can reach a clock/RNG/env/host/network/filesystem callee (P-EFFECT) are within the property's exempt list plus frozen process-constant "
        "reads; core expressions and the compiler reach none. R14b: statics with interior mutability reachable from the crate are each reviewed (table). "
        "R14c: every iteration over a RandomState HashMap/HashSet in non-CLI code is a reviewed site whose order cannot reach a result, or is sorted "
        "(checked structurally for the sorted ones). R14e: Runtime::clear clears every field of RuntimeState. Type-level witnesses (Program: Send+Sync) are "
        "in witness/. Undecided: float formatting, data races inside dependencies.")
    chk.assumptions += ["effect atoms of third-party callees come from the reviewed name table in fmap.ATOMS",
                        "reflection-free code: all shared state is a `static` item or thread_local (both enumerated from the crate's HIR)"]
    M = fmap.FMap(facts)

    rid = "R14a"
    chk.rule(rid, "nondeterministic effect atoms only in exempt functions / frozen process-constant reads; none in core expressions or the compiler", floor=200)
    for f in M.functions.values():
        ident = f["identifier"]
        roots = [r for r in (M.resolve_body(e) for e in f["exprs"]) if r]
        croots = [f["compile"]]
        for e in f["exprs"]:
            for m in ("type_def", "type_info", "resolve_constant"):
                mb = M.method_body(e, m)
                if mb:
                    croots.append(mb)
        for phase, rts in (("resolve", roots), ("compile", croots)):
            eff, seen, ext = fmap.effects(facts, rts)
            atoms = {a: eff[a][0] for a in NONDET if a in eff}
            d = {"function": ident, "phase": phase, "atoms": {a: v[0] for a, v in atoms.items()}}
            bad = []
            for a, (callee, path) in atoms.items():
                if ident in EXEMPT:
                    continue
                if (ident, a) in FROZEN:
                    d.setdefault("frozen", {})[a] = FROZEN[(ident, a)]
                    continue
                bad.append((a, callee, path))
            if bad:
                chk.instance(rid, d, ok=False)
                for a, callee, path in bad:
                    chk.violation(rid, f["file"], f["self"], "`%s` %s reaches %s (%s)" % (ident, phase, callee, a),
                                  "`%s` is not an exempt nondeterministic function, yet its %s can reach %s via %s: equal events can give different results"
                                  % (ident, phase, callee, " -> ".join(path[-3:])), detail=d)
            else:
                chk.instance(rid, d, ok=True)
    core_roots = [i["name"] for i in facts.index if re.match(r"^<compiler::expression::.* as compiler::expression::Expression>::", i["name"])]
    core_roots += [n for n in facts.names() if n.startswith("compiler::runtime::") or n.startswith("compiler::program::")
                   or n.startswith("compiler::state::") or n.startswith("compiler::context::")]
    eff, seen, ext = fmap.effects(facts, core_roots, extra_stop=lambda c: c.startswith("dyn compiler::function::Function::")
                                  or c.startswith("<stdlib::") or c.startswith("stdlib::") or c.startswith("dyn compiler::expression::function::"))
    atoms = {a: eff[a][0] for a in NONDET if a in eff}
    d = {"scope": "core expressions + runtime/program/state/context", "roots": len(core_roots), "bodies": len(seen), "atoms": {a: v[0] for a, v in atoms.items()}}
    chk.instance(rid, d, ok=not atoms)
    for a, (callee, path) in atoms.items():
        b = facts.body(path[-1]) if path and facts.has(path[-1]) else None
        chk.violation(rid, b.file if b else "src/compiler", path[-1] if path else "?", "core reaches %s (%s)" % (callee, a),
                      "a core expression / runtime function reaches the nondeterministic callee %s" % callee, detail=d)

    rid = "R14b"
    chk.rule(rid, "every static with interior mutability (beyond init-once LazyLock/OnceLock of immutable data) is reviewed", floor=20)
    for s in facts.statics:
        ty = s["ty"]
        if "MacroCallsite" in ty or s["name"].startswith("cli::") or s["name"].startswith("<cli::"):
            continue
        lazy = re.match(r"^std::sync::(LazyLock|OnceLock)<(.*)>$", ty)
        inner = lazy.group(2) if lazy else ty
        if not (s["thread_local"] or MUT.search(inner)):
            if lazy:
                chk.instance(rid, {"static": s["name"], "type": ty[:100], "verdict": "init-once, immutable afterwards"}, ok=True)
            continue
        d = {"static": s["name"], "type": ty[:140], "thread_local": s["thread_local"], "reason": SHARED_OK.get(s["name"])}
        if s["name"] in SHARED_OK:
            chk.instance(rid, d, ok=True)
        else:
            chk.instance(rid, d, ok=False)
            chk.violation(rid, s["file"], s["name"], "shared mutable static", "a static with interior mutability (%s) is shared by all runs/threads and is not reviewed"
                          % ty[:80], detail=d, loc="%s:%s" % (s["file"], s["line"]))

    rid = "R14d"
    chk.rule(rid, "no type reachable from Program / any expression struct has a field with interior mutability (a compiled program carries no run-time state)", floor=200)
    roots = set()
    for f in M.functions.values():
        roots |= set(f["exprs"])
    for imp in facts.impls_of("compiler::expression::Expression"):
        roots.add(imp["self"].split("<")[0])
    roots.add("compiler::program::Program")
    INNER = re.compile(r"Mutex|RwLock|RefCell|\bCell<|Atomic|UnsafeCell|OnceCell|OnceLock|LazyLock|LazyCell")
    local_adts = [n for n, a in facts.adts.items() if a.get("local")]
    seen_adts = set()

    def walk(name, path, depth):
        if name in seen_adts or depth > 8:
            return
        seen_adts.add(name)
        a = facts.adts.get(name)
        if not a:
            return
        for v in a["variants"]:
            for fn, ft in zip(v["fields"], v.get("ftys", [])):
                d = {"type": name, "field": fn, "field_type": ft[:120], "reached_via": path[-3:]}
                if INNER.search(ft):
                    chk.instance(rid, d, ok=False)
                    chk.violation(rid, "src", name, "field `%s` has interior mutability" % fn,
                                  "%s.%s: %s — state stored inside the compiled program survives Runtime::clear and is shared by all threads running it"
                                  % (name, fn, ft[:80]), detail=d)
                else:
                    chk.instance(rid, d, ok=True)
                for other in local_adts:
                    if other != name and other in ft:
                        walk(other, path + ["%s.%s" % (name, fn)], depth + 1)
    for r in sorted(roots):
        walk(r, [], 0)

    rid = "R14c"
    chk.rule(rid, "every HashMap/HashSet iteration site outside the CLI is reviewed order-insensitive, or sorted before use", floor=8)
    for i in facts.index:
        n = i["name"]
        if n.startswith("cli::") or n.startswith("<cli::"):
            continue
        hits = [c for c in i["callees"] if HASH.search(c) and ITER.search(c)]
        if not hits:
            continue
        base = n.split("::{closure")[0]
        d = {"fn": n, "calls": hits, "verdict": HASH_OK.get(base)}
        if base not in HASH_OK:
            b = facts.body(n)
            chk.instance(rid, d, ok=False)
            chk.violation(rid, b.file, n, "unreviewed hash iteration %s" % hits[0].rsplit("::", 1)[-1],
                          "iteration over a RandomState hash container (%s): if its order can reach a value, a float sum, a 'first match' or a diagnostic, "
                          "equal inputs give different outputs from run to run" % hits[0], detail=d, loc="%s:%d" % (b.file, b.line))
            continue
        ok = True
        if HASH_OK[base].startswith("SORTED"):
            # every caller must sort the collected items before any other use
            callers = sorted(set(facts.callers(n)))
            for c in callers:
                cb = facts.body(c)
                sorted_ok = any(re.search(r"(core|std|alloc)::slice::<impl \[T\]>::sort(_unstable|_by|_by_key|_unstable_by|_unstable_by_key)?$", cb.callee(t))
                                for bb, t in cb.calls())
                d.setdefault("callers_sort", {})[c] = sorted_ok
                if not sorted_ok:
                    ok = False
                    chk.violation(rid, cb.file, c, "hash-ordered identifiers used unsorted",
                                  "%s consumes %s without sorting: the undefined-variable suggestion depends on hash order" % (c, n), detail=d,
                                  loc="%s:%d" % (cb.file, cb.line))
        chk.instance(rid, d, ok=ok)

    from common import run_witness
    run_witness(chk, "R14w", "Program: Send + Sync + Clone, dyn Expression: Send + Sync, Runtime::resolve takes &Program; an Expression holding Rc<RefCell<_>> is rejected (E0277)")

    rid = "R14e"
    chk.rule(rid, "Runtime::clear -> RuntimeState::clear clears every field of RuntimeState", floor=2)
    adt = facts.adts.get(RUNTIME_STATE)
    b = chk.anchor(STATE_CLEAR, rid)
    rb = chk.anchor(RUNTIME_CLEAR, rid)
    if adt and b is not None:
        fields = adt["variants"][0]["fields"]
        cleared = set()
        for bb, t in b.calls():
            if b.callee(t).rsplit("::", 1)[-1] in ("clear", "default", "take", "replace") or \
                    re.search(r"std::mem::(take|replace)(::<.*>)?$", b.callee(t)):
                l = op_local(t["args"][0]) if t["args"] else None
                if l is not None:
                    r = cfgq.ref_root(b, l)
                    if r and r[0] == 1 and r[1]:
                        cleared.add(r[1][0])
        for bi, si, s in b.iter_stmts():
            p = s["d"]
            names = [e.get("f") for e in p.get("p", []) if isinstance(e, dict) and "f" in e]
            if p["l"] == 1 and names:
                cleared.add(names[0])
        d = {"fields": fields, "cleared": sorted(cleared)}
        ok = set(fields) <= cleared
        chk.instance(rid, d, ok=ok)
        if not ok:
            chk.violation(rid, b.file, STATE_CLEAR, "field not cleared: %s" % sorted(set(fields) - cleared)[0],
                          "RuntimeState::clear leaves a field untouched: a cleared runtime remembers earlier events", detail=d)
    if rb is not None:
        ok = any(rb.callee(t) == STATE_CLEAR for bb, t in rb.calls())
        d = {"fn": RUNTIME_CLEAR, "calls_state_clear": ok}
        chk.instance(rid, d, ok=ok)
        if not ok:
            chk.violation(rid, rb.file, RUNTIME_CLEAR, "Runtime::clear does not clear the state", "Runtime::clear no longer calls RuntimeState::clear", detail=d)
