"""C01 — type soundness of accepted programs (agreement clauses between type_info and resolve)."""
import re
from facts import op_local, op_place, flow_sources
from varflow import VarFlow
import typestate
import cfgq

LIT_RESOLVE = "compiler::expression::literal::Literal::to_value"
LIT_TYPEINFO = "<compiler::expression::literal::Literal as compiler::expression::Expression>::type_info"
LITERAL = "compiler::expression::literal::Literal"
LIT_TABLE = {"String": ("Bytes", "bytes"), "Integer": ("Integer", "integer"), "Float": ("Float", "float"), "Boolean": ("Boolean", "boolean"),
             "Regex": ("Regex", "regex"), "Timestamp": ("Timestamp", "timestamp"), "Null": ("Null", "null")}


def run(chk):
    facts = chk.facts
    chk.explanation = (
        "Decides four agreement clauses between each expression's compile-time transfer function (type_info) and its run-time semantics (resolve); not "
        "soundness of the kind algebra. R01a state threading: every child expression that an `impl Expression`'s resolve evaluates is visited by its "
        "type_info, and no child's TypeInfo.state is computed and dropped. R01b mutator pairing: an expression whose resolve can write variables/target "
        "(P-EFFECT, child evaluation and the balanced closure swap excluded) updates LocalEnv/ExternalEnv in type_info; no plain FunctionExpression "
        "writes either. R01c join discipline: LocalEnv/ExternalEnv/TypeState::merge put a binding into the result only through Details::merge/Kind::union. "
        "R01d base cases: Literal::to_value and Literal::type_info agree per variant. R01e operator result kinds: Op::type_info is evaluated by abstract "
        "interpretation of its MIR (P-ABS, rules/tinfo.py) for every opcode except `??`/`==`/`!=`/`|` and every pair of operand kinds from a 16-element family; "
        "for every (self variant, rhs variant) inside the operand kinds for which the operator's run-time method can return Ok, the Value variant it returns "
        "(read from the method's MIR with P-VAR: From/Into conversions, float_result, operands handed back) must be inside the result kind. For `||` the "
        "value try_or's closure yields is the right operand (C09 R09a/b), for `&&` a null left operand yields a boolean. R01f state versions: the same "
        "interpreter labels every TypeState with the set of child expressions whose effects it is guaranteed to contain (clone keeps the label, a child's "
        "type_info/apply_type_info adds the child, TypeState::merge intersects); the state returned by Op::type_info and IfStatement::type_info must contain "
        "every child that is always evaluated (both operands of non-short-circuit operators, the left operand, the predicate) and must not contain a "
        "child that is only conditionally evaluated (the right operand of `&&`/`||`/`??` unless the left kind makes it certain, either branch of `if`). R01g branch isolation while compiling: in Compiler::compile_if_statement the whole "
        "TypeState is restored to the clone taken after the predicate before the else block is compiled, and to the clone taken on entry before the "
        "statement's own type_info is applied (so neither branch is compiled, and no result is typed, on top of the other branch's bindings). R01h closures: a function call's closure body can "
        "assign variables of the enclosing scope at run time, so FunctionCall::type_info has to apply (merge in) the closure block's type effects; the rule "
        "checks the necessary condition that type_info reads `self.closure` at all. It does not on this tree — upstream's own TODO (vector#13782) — which is "
        "recorded as a known finding with a failing program. Undecided: Kind::insert/at_path/"
        "merge (collection kinds: all objects and arrays are one abstract kind here), closure typing (upstream TODO #13782), stdlib type_defs beyond C03, "
        "operators on compile-time constants.")
    chk.assumptions += ["FunctionExpressionAdapter::type_info returns the incoming state unchanged (read once; re-checked by R01b's adapter clause)"]
    typestate.rule_state_threading(chk, "R01a")
    typestate.rule_mutator_pairing(chk, "R01b")
    typestate.rule_join_discipline(chk, "R01c")

    rid = "R01d"
    chk.rule(rid, "Literal: run-time Value variant and compile-time TypeDef constructor agree per literal variant", floor=7)
    pairs = {}
    for name, kind in ((LIT_RESOLVE, "value"), (LIT_TYPEINFO, "type")):
        b = chk.anchor(name, rid)
        if b is None:
            continue
        for sbb, place, adt, tg, other in cfgq.discr_switches_on(facts, b, lambda p, a: a == LITERAL):
            for var, tbb in tg.items():
                others = [x for v, x in tg.items() if v != var] + [other]
                region = b.reachable_from_edges([tbb], avoid=[sbb] + [o for o in others if o != tbb])
                found = set()
                for rb in region:
                    t = b.term(rb)
                    if t["k"] == "call":
                        cal = b.callee(t)
                        if kind == "type":
                            m = re.search(r"TypeDef::(bytes|integer|float|boolean|regex|timestamp|null)$", cal)
                            if m:
                                found.add(m.group(1))
                        else:
                            nm = " ".join(x for x in (t.get("conv"), t.get("rfn"), t.get("rfn_full")) if x)
                            m = re.search(r"From<([^>]*(?:<[^>]*>)?[^>]*)> for value::value::Value", nm)
                            if m:
                                src = m.group(1)
                                for rx, v in (("Bytes|str|String", "Bytes"), ("i64", "Integer"), ("NotNan|f64", "Float"), ("bool", "Boolean"),
                                              ("Regex", "Regex"), ("DateTime", "Timestamp")):
                                    if re.search(rx, src):
                                        found.add(v)
                                        break
                    for s in b.stmts(rb):
                        if s["rv"]["k"] == "agg" and s["rv"].get("adt") == "value::value::Value":
                            found.add(s["rv"]["variant"])
                pairs.setdefault(var, {})[kind] = sorted(found)
    for var, (want_v, want_t) in LIT_TABLE.items():
        got = pairs.get(var, {})
        d = {"literal": var, "value_variant": got.get("value"), "type_ctor": got.get("type"), "expected": [want_v, want_t]}
        ok = got.get("value") == [want_v] and got.get("type") == [want_t]
        chk.instance(rid, d, ok=ok)
        if not ok:
            chk.violation(rid, "src/compiler/expression/literal.rs", LITERAL, "Literal::%s" % var,
                          "literal %s evaluates to %s but is typed %s (expected %s / %s)" % (var, got.get("value"), got.get("type"), want_v, want_t), detail=d)

    rule_r01e(chk)
    rule_r01f(chk)
    rule_r01g(chk)
    rule_r01h(chk)


def rule_r01e(chk):
    import arith
    import tinfo
    from p_c02 import OP_TYPE_INFO, KIND_OF, VAR_OF, kind_family
    facts = chk.facts
    rid = "R01e"
    chk.rule(rid, "Op::type_info's result kind contains every Value variant the operator can return for operands inside the operand kinds", floor=10)
    if not facts.has(OP_TYPE_INFO):
        chk.fail_closed(rid, "anchor not found: %s" % OP_TYPE_INFO)
        return
    table = {"Add": "try_add", "Sub": "try_sub", "Mul": "try_mul", "Div": "try_div", "Gt": "try_gt", "Ge": "try_ge", "Lt": "try_lt", "Le": "try_le",
             "And": "try_and", "Or": "try_or"}
    fam = kind_family()
    for opc, mname in table.items():
        if not facts.has(arith.method(mname)):
            chk.fail_closed(rid, "anchor not found: %s" % arith.method(mname))
            continue
        res = arith.result_variants(facts, mname)
        if not res:
            chk.fail_closed(rid, "%s: no Ok result producer recognised" % mname)
            continue
        unknown = sorted(k for k, v in res.items() if "?" in v) if opc != "Or" else []
        n_eval = 0
        bad = []
        undecided = None
        for kl in fam:
            for kr in fam:
                selfv = tinfo.Enum("compiler::expression::op::Op", None, {"lhs": tinfo.boxed(tinfo.Expr("lhs")), "rhs": tinfo.boxed(tinfo.Expr("rhs")),
                                                                           "opcode": tinfo.Enum("parser::ast::Opcode", opc)})
                try:
                    td, it = tinfo.evaluate_type_info(facts, OP_TYPE_INFO, selfv, {"lhs": tinfo.TD(kl), "rhs": tinfo.TD(kr)})
                except tinfo.Undecided as e:
                    undecided = str(e)
                    break
                n_eval += 1
                for a in sorted(kl):
                    for c in sorted(kr):
                        if opc == "And" and a == "null":
                            got = {"Boolean"}
                        else:
                            got = set(res.get((VAR_OF[a], VAR_OF[c]), ()))
                        if opc == "Or" and "?" in got:
                            got = (got - {"?"}) | {VAR_OF[c]}
                        for v in sorted(got - {"?"}):
                            if KIND_OF[v] not in td.kind:
                                bad.append((len(kl) + len(kr), sorted(kl), sorted(kr), a, c, v, sorted(td.kind)))
            if undecided:
                break
        d = {"opcode": opc, "method": mname, "configurations_evaluated": n_eval, "result_table_pairs": len(res), "unclassified_producers": unknown[:4],
             "mismatches": len(bad)}
        if undecided:
            chk.instance(rid, d, ok=None)
            chk.fail_closed(rid, "Op::type_info could not be evaluated abstractly for `%s`: %s" % (opc, undecided))
            continue
        if unknown:
            chk.note(rid, "%s: %d variant pairs have a result producer the rule cannot classify (unarmed for those pairs)" % (mname, len(unknown)))
        chk.instance(rid, d, ok=not bad)
        if bad:
            bad.sort()
            _, kl, kr, a, c, v, tk = bad[0]
            d["first"] = {"lhs_kind": kl, "rhs_kind": kr, "operands": [a, c], "returns": v, "typed_as": tk}
            sym = {"Add": "+", "Sub": "-", "Mul": "*", "Div": "/", "Gt": ">", "Ge": ">=", "Lt": "<", "Le": "<=", "And": "&&", "Or": "||"}[opc]
            chk.violation(rid, "src/compiler/expression/op.rs", OP_TYPE_INFO, "opcode %s result kind for (%s, %s)" % (opc, "|".join(kl), "|".join(kr)),
                          "`%s` with operand kinds (%s, %s) is typed %s, but for operands (%s, %s) %s returns a %s: the value is outside its compile-time type "
                          "(%d operand configurations affected)" % (sym, "|".join(kl), "|".join(kr), "|".join(tk), a, c, mname, v.lower(), len(bad)), detail=d)


IF_TYPE_INFO = "<compiler::expression::if_statement::IfStatement as compiler::expression::Expression>::type_info"


def rule_r01f(chk):
    import tinfo
    from p_c02 import OP_TYPE_INFO, kind_family
    facts = chk.facts
    rid = "R01f"
    chk.rule(rid, "the TypeState returned by Op/IfStatement::type_info contains the effects of every always-evaluated child and of no conditionally evaluated one", floor=19)
    sym = {"Add": "+", "Sub": "-", "Mul": "*", "Div": "/", "Gt": ">", "Ge": ">=", "Lt": "<", "Le": "<=", "And": "&&", "Or": "||", "Eq": "==", "Ne": "!=",
           "Merge": "|", "Err": "??"}
    both = {"Add", "Sub", "Mul", "Div", "Gt", "Ge", "Lt", "Le", "Eq", "Ne", "Merge"}
    fam = kind_family()
    if not facts.has(OP_TYPE_INFO):
        chk.fail_closed(rid, "anchor not found: %s" % OP_TYPE_INFO)
    else:
        for opc in sorted(sym):
            missing, extra = [], []
            n = 0
            undecided = None
            for kl in fam:
                for kr in fam[:10]:
                    selfv = tinfo.Enum("compiler::expression::op::Op", None, {"lhs": tinfo.boxed(tinfo.Expr("lhs")), "rhs": tinfo.boxed(tinfo.Expr("rhs")),
                                                                               "opcode": tinfo.Enum("parser::ast::Opcode", opc)})
                    try:
                        td, it = tinfo.evaluate_type_info(facts, OP_TYPE_INFO, selfv, {"lhs": tinfo.TD(kl), "rhs": tinfo.TD(kr)})
                    except tinfo.Undecided as e:
                        undecided = str(e)
                        break
                    n += 1
                    st = it.final_state
                    if not isinstance(st, tinfo.ST):
                        undecided = "returned state is not tracked (%r)" % (st,)
                        break
                    need = {"lhs", "rhs"} if opc in both else {"lhs"}
                    if opc == "Or" and kl == frozenset(["null"]):
                        allowed = {"lhs", "rhs"}
                    elif opc in both:
                        allowed = {"lhs", "rhs"}
                    else:
                        allowed = {"lhs"}
                    if not need <= st.label:
                        missing.append((len(kl) + len(kr), sorted(kl), sorted(kr), sorted(need - st.label)))
                    if not st.label <= allowed:
                        extra.append((len(kl) + len(kr), sorted(kl), sorted(kr), sorted(st.label - allowed)))
                if undecided:
                    break
            d = {"expression": "Op", "opcode": opc, "configurations_evaluated": n, "missing_effects": len(missing), "unconditional_optional_effects": len(extra)}
            if undecided:
                chk.instance(rid, d, ok=None)
                chk.fail_closed(rid, "Op::type_info could not be evaluated abstractly for `%s`: %s" % (opc, undecided))
                continue
            chk.instance(rid, d, ok=not missing and not extra)
            if missing:
                missing.sort()
                _, kl, kr, ch = missing[0]
                d["first_missing"] = {"lhs_kind": kl, "rhs_kind": kr, "child": ch}
                chk.violation(rid, "src/compiler/expression/op.rs", OP_TYPE_INFO, "opcode %s: effects of %s not in the returned state" % (opc, "/".join(ch)),
                              "`a %s b`: the %s operand is always evaluated, but the type state returned by Op::type_info does not contain its effects "
                              "(e.g. `v = \"s\"; x = 10 %s (v = 2) ?? 0; upcase(v)` keeps typing v as a string); %d operand configurations affected"
                              % (sym[opc], "right" if ch == ["rhs"] else "left", sym[opc], len(missing)), detail=d)
            if extra:
                extra.sort()
                _, kl, kr, ch = extra[0]
                d["first_extra"] = {"lhs_kind": kl, "rhs_kind": kr, "child": ch}
                chk.violation(rid, "src/compiler/expression/op.rs", OP_TYPE_INFO, "opcode %s: effects of %s applied unconditionally" % (opc, "/".join(ch)),
                              "`a %s b` with left kind %s: the right operand may not be evaluated, yet its effects are part of the returned type state without "
                              "being merged with the state that skips it; %d operand configurations affected" % (sym[opc], "|".join(kl), len(extra)), detail=d)
    if not facts.has(IF_TYPE_INFO):
        chk.fail_closed(rid, "anchor not found: %s" % IF_TYPE_INFO)
        return
    for has_else in (True, False):
        selfv = tinfo.Enum("compiler::expression::if_statement::IfStatement", None, {
            "predicate": tinfo.Expr("predicate"), "if_block": tinfo.Expr("if_block"),
            "else_block": tinfo.Enum("std::option::Option", "Some", {"0": tinfo.Expr("else_block")}) if has_else else tinfo.NONE})
        d = {"expression": "IfStatement", "else": has_else}
        try:
            td, it = tinfo.evaluate_type_info(facts, IF_TYPE_INFO, selfv, {"predicate": tinfo.TD({"boolean"}), "if_block": tinfo.TD({"integer"}),
                                                                          "else_block": tinfo.TD({"bytes"})})
        except tinfo.Undecided as e:
            chk.instance(rid, d, ok=None)
            chk.fail_closed(rid, "IfStatement::type_info could not be evaluated abstractly: %s" % e)
            continue
        st = it.final_state
        if not isinstance(st, tinfo.ST):
            chk.instance(rid, d, ok=None)
            chk.fail_closed(rid, "IfStatement::type_info: returned state is not tracked (%r)" % (st,))
            continue
        d["state_contains"] = sorted(st.label)
        d["result_kind"] = sorted(td.kind)
        problems = []
        if "predicate" not in st.label:
            problems.append("the predicate is always evaluated but its effects are not in the returned state")
        for br in ("if_block", "else_block"):
            if br in st.label:
                problems.append("the effects of %s are in the returned state unconditionally" % br)
        want = {"integer", "bytes"} if has_else else {"integer", "null"}
        if not want <= td.kind:
            problems.append("result kind %s does not contain %s" % (sorted(td.kind), sorted(want - td.kind)))
        chk.instance(rid, d, ok=not problems)
        if problems:
            chk.violation(rid, "src/compiler/expression/if_statement.rs", IF_TYPE_INFO, "if%s: %s" % (" / else" if has_else else " without else", problems[0][:60]),
                          "IfStatement::type_info (%s): %s" % ("with else" if has_else else "no else", "; ".join(problems)), detail=d)

    # single-child expressions: the child is always evaluated
    for ty, fields, child in (("compiler::expression::not::Not", {"inner": None}, "inner"),
                              ("compiler::expression::group::Group", {"inner": None}, "inner"),
                              ("compiler::expression::r#return::Return", {"span": tinfo.UNK, "expr": None}, "expr")):
        name = "<%s as compiler::expression::Expression>::type_info" % ty
        d = {"expression": ty.rsplit("::", 1)[1]}
        if not facts.has(name):
            chk.instance(rid, d, ok=None)
            chk.fail_closed(rid, "anchor not found: %s" % name)
            continue
        selfv = tinfo.Enum(ty, None, {k: (tinfo.boxed(tinfo.Expr(k)) if v is None else v) for k, v in fields.items()})
        try:
            td, it = tinfo.evaluate_type_info(facts, name, selfv, {child: tinfo.TD({"boolean"}, True)})
        except tinfo.Undecided as e:
            chk.instance(rid, d, ok=None)
            chk.fail_closed(rid, "%s::type_info could not be evaluated abstractly: %s" % (d["expression"], e))
            continue
        st = it.final_state
        ok = isinstance(st, tinfo.ST) and child in st.label
        d["state_contains"] = sorted(st.label) if isinstance(st, tinfo.ST) else None
        chk.instance(rid, d, ok=ok)
        if not ok:
            chk.violation(rid, facts.body(name).file, name, "%s: effects of its operand not in the returned state" % d["expression"],
                          "%s::type_info returns a type state that does not contain the effects of its (always evaluated) operand" % d["expression"], detail=d)


COMPILE_IF = "compiler::compiler::Compiler::<'a>::compile_if_statement"


def rule_r01g(chk):
    """the else block is compiled from the post-predicate state, not from what the if block left behind"""
    facts = chk.facts
    rid = "R01g"
    chk.rule(rid, "compile_if_statement restores the whole TypeState (post-predicate clone) before compiling the else block, and the entry clone before apply_type_info", floor=2)
    b = chk.anchor(COMPILE_IF, rid)
    if b is None:
        return
    state_param = None
    for i in range(1, b.argc + 1):
        if "&mut compiler::state::TypeState" in b.local_ty(i):
            state_param = i
    if state_param is None:
        chk.fail_closed(rid, "compile_if_statement has no `&mut TypeState` parameter")
        return
    clones = [(bb, t) for bb, t in b.calls() if b.callee(t) == "<compiler::state::TypeState as std::clone::Clone>::clone"]
    blocks = [(bb, t) for bb, t in b.calls() if b.callee(t).endswith("::compile_block")]
    preds = [(bb, t) for bb, t in b.calls() if b.callee(t).endswith("::compile_predicate")]
    applies = [(bb, t) for bb, t in b.calls() if b.callee(t).endswith("apply_type_info")]
    if len(blocks) != 2 or len(preds) != 1 or not applies:
        chk.fail_closed(rid, "compile_if_statement: expected 1 compile_predicate, 2 compile_block and an apply_type_info call, found %d/%d/%d"
                        % (len(preds), len(blocks), len(applies)))
        return
    blocks.sort(key=lambda x: x[1]["ln"])
    (if_bb, if_t), (else_bb, else_t) = blocks
    pred_bb = preds[0][0]
    # whole-state restores: `(*state) = move X`
    restores = []
    for bi, si, st in b.iter_stmts():
        d = st["d"]
        if d["l"] == state_param and d.get("p") == ["*"] and st["rv"]["k"] == "use" and not b.is_cleanup(bi):
            src = op_local(st["rv"]["op"])
            origin = None
            for x in cfgq.ref_chain(b, src) if src is not None else []:
                for kind, dbb, dsi, dx in b.defs().get(x, []):
                    if kind == "call" and b.callee(dx) == "<compiler::state::TypeState as std::clone::Clone>::clone":
                        origin = dbb
            restores.append((bi, origin))
    # equivalent whole-state writes: `state.clone_from(&x)`, `mem::replace(state, x)`, `mem::swap(state, &mut x)`
    for bb_, t_ in b.calls():
        cal_ = b.callee(t_)
        if re.search(r"Clone>?::clone_from$|std::mem::(replace|swap)(::<.*>)?$", cal_) and len(t_["args"]) >= 2 and not b.is_cleanup(bb_):
            first = op_local(t_["args"][0])
            if first is None or state_param not in cfgq.ref_chain(b, first):
                continue
            src = op_local(t_["args"][1])
            origin = None
            for x in cfgq.ref_chain(b, src) if src is not None else []:
                for kind, dbb, dsi, dx in b.defs().get(x, []):
                    if kind == "call" and b.callee(dx) == "<compiler::state::TypeState as std::clone::Clone>::clone":
                        origin = dbb
            restores.append((bb_, origin))

    def clone_between(origin, after, before):
        return origin is not None and (after is None or b.dominates(after, origin)) and b.dominates(origin, before) and origin != before
    # (1) before the else block: restore from a clone taken after the predicate and before the if block
    ok1 = any(b.dominates(if_bb, rb) and b.dominates(rb, else_bb) and clone_between(org, pred_bb, if_bb) for rb, org in restores)
    d1 = {"fn": COMPILE_IF, "clause": "else block compiled from the post-predicate state", "whole_state_restores": len(restores)}
    chk.instance(rid, d1, ok=ok1)
    if not ok1:
        chk.violation(rid, b.file, COMPILE_IF, "else block not compiled from the post-predicate state",
                      "compile_if_statement does not restore the whole type state (the clone taken after the predicate) before compiling the else block: "
                      "the else block sees the local variable types left behind by the if block, e.g. `c = 1; if .k { c = \"s\" } else { upcase(c) }` is accepted",
                      detail=d1)
    # (2) before the statement's own type_info: restore from the clone taken on entry (before the predicate)
    ap_bb = applies[-1][0]
    ok2 = any(b.dominates(rb, ap_bb) and org is not None and b.dominates(org, pred_bb) and org != pred_bb for rb, org in restores)
    d2 = {"fn": COMPILE_IF, "clause": "apply_type_info starts from the entry state"}
    chk.instance(rid, d2, ok=ok2)
    if not ok2:
        chk.violation(rid, b.file, COMPILE_IF, "if statement typed on top of a branch state",
                      "compile_if_statement applies the statement's type_info to a state that is not the one it was entered with", detail=d2)


FNCALL_TYPE_INFO = "<compiler::expression::function_call::FunctionCall as compiler::expression::Expression>::type_info"
FNCALL_RESOLVE = "<compiler::expression::function_call::FunctionCall as compiler::expression::Expression>::resolve"


def rule_r01h(chk):
    facts = chk.facts
    rid = "R01h"
    chk.rule(rid, "FunctionCall::type_info takes the closure block into account (reads self.closure)", floor=1)
    b = chk.anchor(FNCALL_TYPE_INFO, rid)
    if b is None:
        return
    adt = facts.adts.get("compiler::expression::function_call::FunctionCall")
    if not adt or "closure" not in adt["variants"][0]["fields"]:
        chk.fail_closed(rid, "FunctionCall has no `closure` field any more: re-anchor R01h")
        return
    reads = []
    for bi, si, st in b.iter_stmts():
        rv = st["rv"]
        places = []
        if rv["k"] in ("use", "cast"):
            pl = op_place(rv["op"])
            if pl:
                places.append(pl)
        elif rv["k"] in ("ref", "discr"):
            places.append(rv["p"])
        for pl in places:
            if pl["l"] == 1 and "closure" in [e.get("f") for e in pl.get("p", []) if isinstance(e, dict)]:
                reads.append(st.get("ln"))
    d = {"fn": FNCALL_TYPE_INFO, "reads_of_self_closure": reads}
    chk.instance(rid, d, ok=bool(reads))
    if not reads:
        chk.violation(rid, b.file, FNCALL_TYPE_INFO, "closure effects not applied",
                      "FunctionCall::type_info never looks at the call's closure: assignments the closure body makes to variables of the enclosing scope are "
                      "invisible to the type checker (`b = \"s\"; for_each([1]) -> |_i, _v| { b = 2 }; upcase(b)` compiles and fails at run time)", detail=d)
