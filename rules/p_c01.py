"""C01 — type soundness of accepted programs (agreement clauses between type_info and resolve)."""
import re
from facts import op_local, op_place, flow_sources
from varflow import VarFlow
import typestate
import cfgq

LIT_RESOLVE = "compiler::expression::literal::Literal::to_value"
LIT_TYPEINFO = "<compiler::expression::literal::Literal as compiler::expression::Expression>::type_info"
LITERAL = "compiler::expression::literal::Literal"
LIT_TABLE = {"String": ("Bytes", "bytes"), "Integer": ("Integer", "integer"), "Float": ("Float", "float"), "Boolean": ("Boolean", "boolean"),
             "Regex": ("Regex", "regex"), "Timestamp": ("Timestamp", "timestamp"), "Null": ("Null", "null")}


def run(chk):
    facts = chk.facts
    chk.explanation = (
        "Decides four agreement clauses between each expression's compile-time transfer function (type_info) and its run-time semantics (resolve); not "
        "soundness of the kind algebra. R01a state threading: every child expression that an `impl Expression`'s resolve evaluates is visited by its "
        "type_info, and no child's TypeInfo.state is computed and dropped. R01b mutator pairing: an expression whose resolve can write variables/target "
        "(P-EFFECT, child evaluation and the balanced closure swap excluded) updates LocalEnv/ExternalEnv in type_info; no plain FunctionExpression "
        "writes either. R01c join discipline: LocalEnv/ExternalEnv/TypeState::merge put a binding into the result only through Details::merge/Kind::union. "
        "R01d base cases: Literal::to_value and Literal::type_info agree per variant. Undecided: Op::type_info's kind tables, Kind::insert/at_path, "
        "closure typing (upstream TODO #13782), stdlib type_defs beyond C03.")
    chk.assumptions += ["FunctionExpressionAdapter::type_info returns the incoming state unchanged (read once; re-checked by R01b's adapter clause)"]
    typestate.rule_state_threading(chk, "R01a")
    typestate.rule_mutator_pairing(chk, "R01b")
    typestate.rule_join_discipline(chk, "R01c")

    rid = "R01d"
    chk.rule(rid, "Literal: run-time Value variant and compile-time TypeDef constructor agree per literal variant", floor=7)
    pairs = {}
    for name, kind in ((LIT_RESOLVE, "value"), (LIT_TYPEINFO, "type")):
        b = chk.anchor(name, rid)
        if b is None:
            continue
        for sbb, place, adt, tg, other in cfgq.discr_switches_on(facts, b, lambda p, a: a == LITERAL):
            for var, tbb in tg.items():
                others = [x for v, x in tg.items() if v != var] + [other]
                region = b.reachable_from_edges([tbb], avoid=[sbb] + [o for o in others if o != tbb])
                found = set()
                for rb in region:
                    t = b.term(rb)
                    if t["k"] == "call":
                        cal = b.callee(t)
                        if kind == "type":
                            m = re.search(r"TypeDef::(bytes|integer|float|boolean|regex|timestamp|null)$", cal)
                            if m:
                                found.add(m.group(1))
                        else:
                            nm = " ".join(x for x in (t.get("conv"), t.get("rfn"), t.get("rfn_full")) if x)
                            m = re.search(r"From<([^>]*(?:<[^>]*>)?[^>]*)> for value::value::Value", nm)
                            if m:
                                src = m.group(1)
                                for rx, v in (("Bytes|str|String", "Bytes"), ("i64", "Integer"), ("NotNan|f64", "Float"), ("bool", "Boolean"),
                                              ("Regex", "Regex"), ("DateTime", "Timestamp")):
                                    if re.search(rx, src):
                                        found.add(v)
                                        break
                    for s in b.stmts(rb):
                        if s["rv"]["k"] == "agg" and s["rv"].get("adt") == "value::value::Value":
                            found.add(s["rv"]["variant"])
                pairs.setdefault(var, {})[kind] = sorted(found)
    for var, (want_v, want_t) in LIT_TABLE.items():
        got = pairs.get(var, {})
        d = {"literal": var, "value_variant": got.get("value"), "type_ctor": got.get("type"), "expected": [want_v, want_t]}
        ok = got.get("value") == [want_v] and got.get("type") == [want_t]
        chk.instance(rid, d, ok=ok)
        if not ok:
            chk.violation(rid, "src/compiler/expression/literal.rs", LITERAL, "Literal::%s" % var,
                          "literal %s evaluates to %s but is typed %s (expected %s / %s)" % (var, got.get("value"), got.get("type"), want_v, want_t), detail=d)
