"""C08 — `??` and `ok, err =` follow their definitions (structure of the two evaluators and the default table)."""
import re
from facts import op_local, op_place, flow_sources, proj_fields
from varflow import VarFlow, MOVED
import cfgq

OP_RESOLVE = "<compiler::expression::op::Op as compiler::expression::Expression>::resolve"
VAR_RESOLVE = ("<compiler::expression::assignment::Variant<compiler::expression::assignment::Target, U> as "
               "compiler::expression::Expression>::resolve")
VAR_TYPEINFO = ("<compiler::expression::assignment::Variant<compiler::expression::assignment::Target, U> as "
                "compiler::expression::Expression>::type_info")
ASSIGN_NEW = "compiler::expression::assignment::Assignment::new"
TARGET_INSERT = "compiler::expression::assignment::Target::insert"
DEFAULT_VALUE = "<value::kind::Kind as compiler::value::kind::DefaultValue>::default_value"
VARIANT = "compiler::expression::assignment::Variant"

FROM_MAP = [  # From<T> for Value impl path fragment -> Value variant
    (r"From<&str>|From<std::string::String>|From<bytes::Bytes>|From<&\[u8\]>|From<std::borrow::Cow", "Bytes"),
    (r"From<i64>|From<i32>|From<u32>|From<usize>|From<isize>|From<u64>|From<i8>|From<i16>|From<u8>|From<u16>", "Integer"),
    (r"From<ordered_float::NotNan<f64>>|From<f64>", "Float"),
    (r"From<bool>", "Boolean"),
    (r"From<chrono::DateTime", "Timestamp"),
    (r"From<regex::Regex>|From<value::value::regex::ValueRegex>", "Regex"),
    (r"From<std::vec::Vec|From<\[", "Array"),
    (r"From<std::collections::BTreeMap", "Object"),
]
GUARD_TO_VARIANT = {"is_bytes": "Bytes", "is_integer": "Integer", "is_float": "Float", "is_boolean": "Boolean", "is_timestamp": "Timestamp",
                    "is_regex": "Regex", "is_array": "Array", "is_object": "Object"}


def value_variant_of_call(t):
    names = " ".join(x for x in (t.get("conv"), t.get("rfn"), t.get("rfn_full"), t.get("fn_full")) if x)
    if "for value::value::Value" not in names and "value::value::Value as std::convert::From" not in names:
        return None
    for rx, v in FROM_MAP:
        if re.search(rx, names):
            return v
    return "?"


def run(chk):
    facts = chk.facts
    chk.explanation = (
        "Decides the shape of the two evaluators and the default table, not message texts. R08a (`??`): in Op::resolve the Ok result of lhs is returned "
        "unchanged, rhs is evaluated only in states where the lhs result is Err, and then rhs's Result reaches the return place untested and unchanged. R08b (`ok, err =`): P-VAR over Variant::resolve keyed on the result "
        "of expr.resolve — on Ok: ok <- clone of the value, err <- Value::Null, result = the value; on Err: ok <- clone of self.default, err <- the "
        "error's to_string() as a Value, result = that message. R08c: the `default` stored in Variant::Infallible comes from DefaultValue::default_value of "
        "the expression's (infallible) type in Assignment::new, and type_info unions TypeDef::from(default.kind()) of the same field into ok's type. "
        "R08d: DefaultValue::default_value pairs every Kind::is_X guard with a literal of Value variant X. Control-flow errors (abort/return) are C06/C07.")
    # ---- R08a
    rid = "R08a"
    chk.rule(rid, "`??`: Ok(lhs) returned unchanged; rhs evaluated only when the lhs result is Err; then rhs's Result is the result", floor=3)
    b = chk.anchor(OP_RESOLVE, rid)
    if b is not None:
        def fld(t):
            l = op_local(t["args"][0])
            r = cfgq.ref_root(b, l) if l is not None else None
            return r[1][0] if r and r[0] == 1 and r[1] else None
        lhs = [(bb, t) for bb, t in b.calls() if (t.get("fn") or "") == "compiler::expression::Expression::resolve" and fld(t) == "lhs"]
        rhs = [(bb, t) for bb, t in b.calls() if (t.get("fn") or "") == "compiler::expression::Expression::resolve" and fld(t) == "rhs"]
        res_locals = [t["dest"]["l"] for bb, t in lhs]
        vf = VarFlow(facts, b, extra_locals=res_locals)
        opkey = vf.key({"l": 1, "p": ["*", {"f": "opcode", "ty": ""}]})
        err_sites = {}
        ok_return = []

        def on_term(bb, t, st):
            if t["k"] == "call" and any(bb == x[0] for x in rhs):
                ops = st.get(opkey)
                if ops is not None and set(ops) == {"Err"}:
                    err_sites.setdefault(bb, []).append(dict(st))

        def on_stmt(bb, si, s, st):
            ops = st.get(opkey)
            if ops is not None and set(ops) == {"Err"} and s["d"]["l"] == 0 and s["rv"]["k"] == "use":
                src = op_local(s["rv"]["op"])
                if src is not None:
                    chain = cfgq.ref_chain(b, src)
                    for r in res_locals:
                        if r in chain:
                            v = st.get("_%d" % src) or st.get("_%d" % r)
                            ok_return.append((bb, sorted(v) if v else None))
        vf.run(on_term=on_term, on_stmt=on_stmt)
        d = {"fn": OP_RESOLVE, "rhs_sites_under_Err_opcode": len(err_sites)}
        ok = bool(err_sites)
        for bb, sts in err_sites.items():
            for st in sts:
                if not any(st.get("_%d" % r) is not None and set(st["_%d" % r]) - {MOVED} == {"Err"} for r in res_locals):
                    ok = False
        chk.instance(rid, d, ok=ok)
        if not ok:
            chk.violation(rid, b.file, OP_RESOLVE, "`??` rhs evaluated without Err lhs", "`a ?? b`: b can be evaluated although a succeeded (or is never evaluated)", detail=d)
        d = {"fn": OP_RESOLVE, "lhs_result_returned_as_is": ok_return[:3]}
        ok = any(v is None or "Ok" in v for bb, v in ok_return)
        chk.instance(rid, d, ok=ok)
        if not ok:
            chk.violation(rid, b.file, OP_RESOLVE, "`??` does not return Ok(lhs) unchanged", "`a ?? b` no longer yields a's value when a succeeds", detail=d)
        # when a failed, the outcome of `a ?? b` IS the outcome of b (value or error): b's Result reaches the return place untested and unchanged
        from facts import uses_of
        for bb in sorted(err_sites):
            t = b.term(bb)
            dl = t["dest"]["l"]
            al = cfgq.copies_forward(b, dl)
            tested = []
            for x in al:
                for kind, ubb, usi, ux in uses_of(b, x):
                    if kind == "stmt" and ux["rv"]["k"] == "discr":
                        tested.append(ux.get("ln"))
                    elif kind == "call" and not (b.callee(ux).endswith("::clone")):
                        tested.append(ux.get("ln"))
            d = {"fn": OP_RESOLVE, "rhs_result_local": dl, "reaches_return_place": 0 in al, "inspected_or_transformed_at": tested[:3]}
            okr = (0 in al) and not tested
            chk.instance(rid, d, ok=okr)
            if not okr:
                chk.violation(rid, b.file, OP_RESOLVE, "`??` does not return b's outcome unchanged",
                              "`a ?? b`: when a fails the result must be exactly b's result, but Op::resolve inspects or replaces b's Result before returning it "
                              "(e.g. reporting a's error when b fails too)", detail=d, loc="%s:%s" % (b.file, t["ln"]))

    # ---- R08b
    rid = "R08b"
    chk.rule(rid, "`ok, err =`: the four (outcome, target) stores and the expression result carry the defined values; `ok` is stored before `err` in both arms", floor=7)
    b = chk.anchor(VAR_RESOLVE, rid)
    if b is not None:
        exprs = [(bb, t) for bb, t in b.calls() if (t.get("fn") or "") == "compiler::expression::Expression::resolve"]
        inf_res = None
        for bb, t in exprs:
            l = op_local(t["args"][0])
            r = cfgq.ref_root(b, l) if l is not None else None
            if r and "expr" in r[1] and b.local_ty(t["dest"]["l"]).startswith("std::result::Result<"):
                # the Infallible arm is the one whose result is matched, not `?`-propagated
                uses = [u for u in __import__("facts").uses_of(b, t["dest"]["l"])]
                if not any(u[0] == "call" and b.callee(u[3]).endswith("Try>::branch") for u in uses):
                    inf_res = t["dest"]["l"]
        if inf_res is None:
            chk.fail_closed(rid, "Variant::resolve: matched (non-`?`) expr.resolve result not found")
        else:
            vf = VarFlow(facts, b, extra_locals=[inf_res])
            stores = {}
            results = {}

            def classify(l, depth=0):
                """what a stored Value is: value (Ok payload of e), Null, default (clone of self.default), message (to_string of the error)"""
                kinds = set()
                if l is None or depth > 6:
                    return kinds
                for kind, dbb, si, x in b.defs().get(l, []):
                    if kind == "stmt":
                        rv = x["rv"]
                        if rv["k"] == "agg" and rv.get("adt") == "value::value::Value" and rv.get("variant") == "Null":
                            kinds.add("Null")
                        elif rv["k"] in ("use", "ref", "cast"):
                            p = op_place(rv["op"]) if rv["k"] != "ref" else rv["p"]
                            if p is None:
                                continue
                            vs = [e["v"] for e in p.get("p", []) if isinstance(e, dict) and "v" in e]
                            fs = [e["f"] for e in p.get("p", []) if isinstance(e, dict) and "f" in e]
                            if p["l"] == inf_res and "Ok" in vs:
                                kinds.add("value")
                            elif p["l"] == inf_res and "Err" in vs:
                                kinds.add("error")
                            elif p["l"] == 1 and "default" in fs:
                                kinds.add("default")
                            else:
                                kinds |= classify(p["l"], depth + 1)
                    else:
                        cal = b.callee(x)
                        if cal.endswith("ToString>::to_string"):
                            inner = classify(op_local(x["args"][0]), depth + 1)
                            kinds.add("message" if "error" in inner else "to_string(%s)" % sorted(inner))
                        elif cal.endswith("Clone>::clone") or cal.endswith("::from") or cal.endswith("::into"):
                            kinds |= classify(op_local(x["args"][0]), depth + 1)
                        else:
                            kinds.add("call:" + cal.rsplit("::", 1)[-1])
                return kinds

            store_blocks = {}

            def on_term(bb, t, st):
                if t["k"] == "call" and b.callee(t) == TARGET_INSERT:
                    v = st.get("_%d" % inf_res)
                    out = "/".join(sorted(set(v) - {MOVED})) if v else "?"
                    tl = op_local(t["args"][0])
                    r = cfgq.ref_root(b, tl) if tl is not None else None
                    tf = [f for f in (r[1] if r else []) if f in ("ok", "err", "target")]
                    if not tf or tf[0] == "target":
                        return
                    stores.setdefault((out, tf[0]), set()).update(classify(op_local(t["args"][1])))
                    store_blocks.setdefault((out, tf[0]), set()).add(bb)

            def on_stmt(bb, si, s, st):
                if s["rv"]["k"] == "use" and not s["d"].get("p"):
                    # the local later wrapped into Ok(..) as the expression result
                    pass
            vf.run(on_term=on_term)
            expect = {("Ok", "ok"): "value", ("Ok", "err"): "Null", ("Err", "ok"): "default", ("Err", "err"): "message"}
            for key, want in expect.items():
                got = stores.get(key, set())
                d = {"outcome": key[0], "target": key[1], "expected": want, "found": sorted(got)}
                ok = got == {want}
                chk.instance(rid, d, ok=ok)
                if not ok:
                    chk.violation(rid, b.file, VAR_RESOLVE, "%s arm stores %s into `%s`" % (key[0], sorted(got) or "nothing", key[1]),
                                  "`ok, err = e`: when e %s, `%s` must receive the %s but receives %s"
                                  % ("succeeds" if key[0] == "Ok" else "fails", key[1], want, sorted(got) or "nothing"), detail=d)
            # sibling arms agree on the order of the two stores (it decides the outcome when the two targets overlap, `.r, .r.error = ..`)
            for out in ("Ok", "Err"):
                okb, errb = store_blocks.get((out, "ok"), set()), store_blocks.get((out, "err"), set())
                d = {"outcome": out, "ok_store_blocks": sorted(okb), "err_store_blocks": sorted(errb)}
                good = bool(okb) and bool(errb) and all(any(b.dominates(x, y) and x != y for x in okb) for y in errb)
                chk.instance(rid, d, ok=good)
                if not good:
                    chk.violation(rid, b.file, VAR_RESOLVE, "%s arm: `err` is stored before `ok`" % out,
                                  "`ok, err = e`: when e %s the store into `ok` must come before the store into `err` (as in the other arm): with overlapping "
                                  "targets such as `.r, .r.error = ..` the order decides what is left in the event" % ("succeeds" if out == "Ok" else "fails"),
                                  detail=d)
            # expression result: Ok arm -> the value, Err arm -> the message
            res_src = {}
            for bi, si, s in b.iter_stmts():
                if s["rv"]["k"] == "agg" and s["rv"].get("adt") == "std::result::Result" and s["rv"].get("variant") == "Ok" and s["d"]["l"] == 0:
                    l = op_local(s["rv"]["ops"][0])
                    res_src = classify(l) if l is not None else set()
            d = {"expression_result_sources": sorted(res_src)}
            ok = {"value", "message"} <= res_src and "default" not in res_src and "Null" not in res_src
            chk.instance(rid, d, ok=ok)
            if not ok:
                chk.violation(rid, b.file, VAR_RESOLVE, "assignment expression result", "`ok, err = e` must evaluate to e's value or the error message; found sources %s"
                              % sorted(res_src), detail=d)

    # ---- R08c
    rid = "R08c"
    chk.rule(rid, "the stored default is DefaultValue::default_value of the expression type and type_info unions that same field's kind", floor=2)
    b = chk.anchor(ASSIGN_NEW, rid)
    if b is not None:
        ok = False
        for bi, si, s in cfgq.agg_sites(b, VARIANT, "Infallible"):
            for nme, op in zip(s["rv"].get("fnames", []), s["rv"]["ops"]):
                if nme == "default":
                    l = op_local(op)
                    src = flow_sources(b, l) if l is not None else set()
                    for x in src:
                        if x[0] in ("call", "via") and x[2].endswith("DefaultValue>::default_value"):
                            ct = b.term(x[1])
                            asrc = flow_sources(b, op_local(ct["args"][0]))
                            if any(y[0] in ("call", "via") and (y[2].endswith("::type_info") or y[2].endswith("TypeDef::infallible")) for y in asrc):
                                ok = True
        d = {"fn": ASSIGN_NEW, "default_from_default_value_of_expr_type": ok}
        chk.instance(rid, d, ok=ok)
        if not ok:
            chk.violation(rid, b.file, ASSIGN_NEW, "Variant::Infallible.default origin",
                          "the value stored on failure is not DefaultValue::default_value() of the right-hand side's type", detail=d)
    b = chk.anchor(VAR_TYPEINFO, rid)
    if b is not None:
        ok = False
        for bb, t in b.calls():
            if b.callee(t).endswith("Value>::kind") or b.callee(t).endswith("::kind"):
                l = op_local(t["args"][0])
                r = cfgq.ref_root(b, l) if l is not None else None
                if r and "default" in r[1]:
                    # flows into a TypeDef::from / union
                    ok = True
        d = {"fn": VAR_TYPEINFO, "ok_type_includes_kind_of_default_field": ok}
        chk.instance(rid, d, ok=ok)
        if not ok:
            chk.violation(rid, b.file, VAR_TYPEINFO, "ok type ignores the stored default",
                          "type_info no longer unions the kind of the stored default into ok's type: the stored default may not belong to ok's reported type",
                          detail=d)

    # ---- R08d
    rid = "R08d"
    chk.rule(rid, "default_value: each Kind::is_X guard's true edge returns a literal of variant X; fall-through returns Null", floor=8)
    b = chk.anchor(DEFAULT_VALUE, rid)
    if b is not None:
        guards = [(bb, t) for bb, t in b.calls() if re.search(r"impl value::kind::Kind>::is_(\w+)$|Kind::is_(\w+)$", b.callee(t))]
        for bb, t in guards:
            g = b.callee(t).rsplit("::", 1)[1]
            want = GUARD_TO_VARIANT.get(g)
            edges = cfgq.bool_switch_after_call(b, bb)
            d = {"guard": g, "expected_variant": want}
            if want is None or edges is None:
                chk.instance(rid, d, ok=None)
                chk.fail_closed(rid, "default_value: guard %s not understood" % g)
                continue
            true_bb, false_bb = edges
            region = b.reachable_from_edges([true_bb], avoid=[false_bb])
            found = set()
            for rb in region:
                tt = b.term(rb)
                if tt["k"] == "call":
                    v = value_variant_of_call(tt)
                    if v and tt["dest"]["l"] == 0 or (v and 0 in __import__("facts").forward_taint(b, {tt["dest"]["l"]})):
                        found.add(v)
                for s in b.stmts(rb):
                    if s["rv"]["k"] == "agg" and s["rv"].get("adt") == "value::value::Value" and (s["d"]["l"] == 0 or 0 in __import__("facts").forward_taint(b, {s["d"]["l"]})):
                        found.add(s["rv"]["variant"])
            d["found"] = sorted(found)
            ok = found == {want}
            chk.instance(rid, d, ok=ok)
            if not ok:
                chk.violation(rid, b.file, DEFAULT_VALUE, "%s => %s" % (g, sorted(found) or "nothing"),
                              "the default for a kind that %s is a %s value, not %s: the value stored in `ok` on failure would not belong to ok's type"
                              % (g, sorted(found) or "missing", want), detail=d)
        missing = set(GUARD_TO_VARIANT) - {b.callee(t).rsplit("::", 1)[1] for bb, t in guards}
        if missing:
            chk.note(rid, "kinds without an explicit default (fall through to Null): %s" % sorted(missing))
